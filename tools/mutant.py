#!/venv/bin/python
"""Evaluate a seeded change (patch.diff + demo.py) in a scratch worktree:

  tools/mutant.py <dir> [--props C02,C08] [--tier quick] [--runs N]

1. scratch worktree of /repo HEAD under /tmp; demo must exit 0 there;
2. apply patch.diff; the 266 tests must pass; demo must exit 1;
3. run the listed checks with VERIF_REPO=<worktree> (evidence / replays go to
   a temp dir, /verif is not touched); report exit codes and signatures;
4. remove the worktree.
Prints one JSON object.
"""
import argparse
import json
import os
import re
import shutil
import subprocess
import tempfile

VERIF = os.path.dirname(os.path.dirname(os.path.abspath(__file__)))


def sh(cmd, cwd=None, env=None, timeout=3600):
    p = subprocess.run(cmd, cwd=cwd, env=env, capture_output=True, text=True, timeout=timeout)
    return p.returncode, p.stdout + p.stderr


def main():
    ap = argparse.ArgumentParser()
    ap.add_argument("dir")
    ap.add_argument("--props", default="C02,C06,C08,C16,C18")
    ap.add_argument("--tier", default="quick")
    ap.add_argument("--runs")
    ap.add_argument("--keep-replays")
    args = ap.parse_args()
    d = os.path.abspath(args.dir)
    patch = os.path.join(d, "patch.diff")
    demo = os.path.join(d, "demo.py")
    tmp = tempfile.mkdtemp(prefix="mutant_")
    wt = os.path.join(tmp, "wt")
    out = {"dir": d}
    try:
        rc, o = sh(["git", "-C", "/repo", "worktree", "add", "--detach", "-f", wt, "HEAD"])
        assert rc == 0, o
        env = dict(os.environ, PYTHONPATH=wt, PYTHONDONTWRITEBYTECODE="1")
        if os.path.exists(demo):
            rc, o = sh(["/venv/bin/python", demo], cwd=wt, env=env, timeout=600)
            out["demo_without"] = rc
        rc, o = sh(["git", "-C", wt, "apply", patch])
        out["applies"] = rc == 0
        if rc != 0:
            out["apply_output"] = o[-500:]
            return out
        rc, o = sh(["/venv/bin/python", "-m", "pytest", "-q", "-p", "no:cacheprovider", "--timeout=900"], cwd=wt, env=env, timeout=1800)
        m = re.search(r"(\d+) passed", o)
        out["tests_rc"] = rc
        out["tests_passed"] = int(m.group(1)) if m else None
        out["tests_failed"] = bool(re.search(r"\d+ failed|\d+ error", o))
        if os.path.exists(demo):
            rc, o = sh(["/venv/bin/python", demo], cwd=wt, env=env, timeout=600)
            out["demo_with"] = rc
            out["demo_output"] = o[-600:]
        out["checks"] = {}
        for pid in args.props.split(","):
            cenv = dict(os.environ, VERIF_REPO=wt, VERIF_EVIDENCE_DIR=os.path.join(tmp, "ev"), VERIF_REPLAY_DIR=os.path.join(tmp, "replays"))
            cmd = [os.path.join(VERIF, "check"), pid, "--tier", args.tier]
            if args.runs:
                cmd += ["--runs", args.runs]
            rc, o = sh(cmd, cwd=VERIF, env=cenv, timeout=7200)
            sigs = re.findall(r"violation: oracle=(\S+) locus=(\S+) occurrences=(\d+) first_seed_index=(\d+)", o)
            harness = [l for l in o.splitlines() if l.startswith("HARNESS-ERROR")]
            out["checks"][pid] = {"exit": rc, "signatures": [{"oracle": a, "locus": b, "occurrences": int(c), "first_seed_index": int(e)} for a, b, c, e in sigs], "harness": harness[:3]}
            m = re.search(r"SUMMARY.*", o)
            out["checks"][pid]["summary"] = m.group(0) if m else o[-300:]
        if args.keep_replays and os.path.isdir(os.path.join(tmp, "replays")):
            shutil.copytree(os.path.join(tmp, "replays"), args.keep_replays, dirs_exist_ok=True)
        return out
    finally:
        sh(["git", "-C", "/repo", "worktree", "remove", "--force", wt])
        shutil.rmtree(tmp, ignore_errors=True)


if __name__ == "__main__":
    res = main()
    print(json.dumps(res, indent=1))
