#!/venv/bin/python
"""Run every seeded change under /verif/seeded against the check of the
property it breaks (scratch worktrees; /repo and /verif/evidence untouched) and
write /verif/seeded/RESULTS.json.   tools/sensitivity.py [name-prefix ...]"""
import json
import os
import subprocess
import sys

VERIF = os.path.dirname(os.path.dirname(os.path.abspath(__file__)))
SEEDED = os.path.join(VERIF, "seeded")


def record(d, meta, cmd, r, checks):
    """meta.json also says what was run on the change and what came out."""
    meta["what_i_ran"] = {
        "command": cmd,
        "in": "a scratch worktree of /repo HEAD with the patch applied (removed afterwards); /repo itself untouched",
        "patch_applies": r.get("applies"),
        "existing_tests_passed_with_change": r.get("tests_passed"),
        "existing_tests_failed": r.get("tests_failed"),
        "demo_exit_without_change": r.get("demo_without"),
        "demo_exit_with_change": r.get("demo_with"),
        "checks": {k: {"exit": v.get("exit"), "first_signatures": v.get("signatures", [])[:3], "summary": v.get("summary")} for k, v in checks.items()},
    }
    json.dump(meta, open(os.path.join(d, "meta.json"), "w"), indent=1)


def main():
    want = sys.argv[1:]
    path = os.path.join(SEEDED, "RESULTS.json")
    results = json.load(open(path)) if os.path.exists(path) else {}
    for name in sorted(os.listdir(SEEDED)):
        d = os.path.join(SEEDED, name)
        if not os.path.isdir(d) or name.startswith("_") or (want and not any(name.startswith(w) for w in want)):
            continue
        meta = json.load(open(os.path.join(d, "meta.json")))
        if meta.get("expect") == "silent":
            # negative control: the property still holds, every listed check must stay silent
            p = subprocess.run([os.path.join(VERIF, "tools", "mutant.py"), d, "--props", ",".join(meta["checks"])], capture_output=True, text=True)
            try:
                r = json.loads(p.stdout)
            except Exception:
                r = {"error": (p.stdout + p.stderr)[-500:]}
            exits = {k: v.get("exit") for k, v in r.get("checks", {}).items()}
            results[name] = {
                "negative_control": True,
                "tests_passed": r.get("tests_passed"),
                "tests_failed": r.get("tests_failed"),
                "check_exits": exits,
                "silent": bool(exits) and all(e == 0 for e in exits.values()),
                "signatures": {k: v.get("signatures", [])[:3] for k, v in r.get("checks", {}).items() if v.get("exit") != 0},
            }
            print(name, "silent (as it must be)" if results[name]["silent"] else f"FALSE ALARM {exits} {results[name]['signatures']}", flush=True)
            json.dump(results, open(path, "w"), indent=1, sort_keys=True)
            record(d, meta, f"tools/mutant.py seeded/{name} --props {','.join(meta['checks'])}", r, r.get("checks", {}))
            continue
        pid = meta["breaks"]
        props = meta.get("checks") or [pid]  # a change may be attributed to another claimed property as well
        p = subprocess.run([os.path.join(VERIF, "tools", "mutant.py"), d, "--props", ",".join(props)], capture_output=True, text=True)
        try:
            r = json.loads(p.stdout)
        except Exception:
            r = {"error": (p.stdout + p.stderr)[-500:]}
        by = {k: v.get("exit") for k, v in r.get("checks", {}).items()}
        catcher = next((k for k in props if by.get(k) == 1), pid)
        c = r.get("checks", {}).get(catcher, {})
        results[name] = {
            "property": pid,
            "tests_passed": r.get("tests_passed"),
            "tests_failed": r.get("tests_failed"),
            "demo_without": r.get("demo_without"),
            "demo_with": r.get("demo_with"),
            "check_exit": c.get("exit"),
            "caught": c.get("exit") == 1,
            "caught_by": catcher if c.get("exit") == 1 else None,
            "exits": by,
            "signatures": c.get("signatures", [])[:5],
            "harness": c.get("harness", []),
            "summary": c.get("summary"),
        }
        print(name, "caught" if results[name]["caught"] else f"NOT CAUGHT (exit {c.get('exit')})", [(s["oracle"], s["locus"]) for s in results[name]["signatures"][:2]], flush=True)
        json.dump(results, open(path, "w"), indent=1, sort_keys=True)
        record(d, meta, f"tools/mutant.py seeded/{name} --props {','.join(props)}", r, r.get("checks", {}))


main()
