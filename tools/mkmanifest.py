#!/venv/bin/python
"""Regenerate MANIFEST.json (kept as a script so the five checks stay uniform)."""
import json

NA = {
    "C01": "Meaning of one leaf condition on one container: a pure function of (condition, document) in this code base (no hidden state, clock, I/O or concurrency); no schedule, history or fault for a simulator to choose. DESIGN.md 6.",
    "C03": "Which nodes a path selects: pure function of (path, document); nothing for a scheduler or fault injector to decide. DESIGN.md 6.",
    "C04": "Truthfulness of returned concrete paths and modifier semantics: pure function of (path, modifiers, document); 'either order of modifiers' is part of the program term, not a schedule. DESIGN.md 6.",
    "C05": "A rule's verdict and failure list: pure function of (rule, document). DESIGN.md 6.",
    "C07": "'Never raises because of the document' is universally quantified over inputs; the exceptions come from document values, not from an injectable environment fault. DESIGN.md 6.",
    "C09": "Spec == DSL for conditions: pure parser equivalence over spellings; no state evolves. DESIGN.md 6.",
    "C10": "Spec/YAML == API for parts, paths, rules: pure parser equivalence; the only I/O (from_yaml_file) is a stream handed to ruamel and no property speaks about read faults. DESIGN.md 6.",
    "C11": "Condition JSON round trip: pure function of the condition term. DESIGN.md 6.",
    "C12": "Path serialisation round trip or refusal: pure function of the path term. DESIGN.md 6.",
    "C13": "Rule/schema JSON round trip incl. casts: pure function of the schema term. DESIGN.md 6.",
    "C14": "Equality is an equivalence implying same behaviour: a relation on pairs of terms; nothing evolves. DESIGN.md 6.",
    "C15": "Which nodes a cast replaces and with what: pure function of (schema, document). (Privacy of the copy is exercised under C08; nothing of C15 is claimed.) DESIGN.md 6.",
    "C17": "Meaning of a path-valued argument: pure function of (rule, document). (That the value comes from this document and not an earlier one is exercised under C08.) DESIGN.md 6.",
    "C19": "Malformed specs rejected with spec errors: quantified over mutated inputs; corrupting a spec is input generation and no valida-owned I/O path could tear the text. DESIGN.md 6.",
    "C20": "Documentation tree / HTML faithfulness and escaping: pure function of the schema term. DESIGN.md 6.",
}

CHECKS = {
    "C02": dict(
        ref="DESIGN.md 5.2",
        text="Seeded search over histories: callers interleaved at operation boundaries build combinations (operator and class call), spec-list folds and container parts from ONE shared pool of condition objects; after every step every entry is compared with a pointwise Boolean model with null identity on probe documents, and every older entry's digest must be unchanged. Sampling, not enumeration: a clean batch is evidence, not proof.",
        note="Trusts: leaf semantics taken from freshly built leaves (C01 is not claimed); CPython; the harness' structural snapshot. Operation-boundary histories only (the property is not quantified over schedules).",
        technique="deterministic simulation: seeded operation-boundary interleaving of build operations over shared condition objects; Boolean reference model + digest/write-tracer monitors; ddmin replay files",
    ),
    "C06": dict(
        ref="DESIGN.md 5.5",
        text="Seeded search over configurations: one set of Rule objects shared by several schemas built from seeded permutations of the rule list, validated by interleaved callers in seeded order; conservation (conjunction / sum / count) against per-rule reference runs on fresh single rules, permutation invariance of verdicts and (rule, failing path) sets, stable shortest-first order, report is a str naming every failing path.",
        note="Trusts: a single rule's verdict is taken from a fresh single-rule run (C05 is not claimed). No fault applies; the 'schedule' is permutation x validation order.",
        technique="deterministic simulation: seeded permutations / validation orders over shared Rule objects; conservation + permutation-invariance oracles over the recorded history",
    ),
    "C08": dict(
        ref="DESIGN.md 5.1",
        text="Seeded search over thread schedules and faults: 1-4 real caller threads (one baton, sys.settrace pre-emption points at valida source lines / opcodes) issue filter/get/part_filter/test/validate on one shared world (in runs without pre-emption callers also edit their own documents between operations); abort and allocation-failure faults; during the run digests of all pre-existing objects and an attribute-write tracer; afterwards every completed operation's outcome must equal the same operation on freshly built objects run alone. Sampling of schedules (random, PCT, stratified, after-write incl. stores into process-wide state, targeted, ping-pong), not enumeration.",
        note="Trusts: CPython's trace events as the set of pre-emption points (finer interleavings inside one bytecode do not exist under the GIL); fresh-object reference uses the same valida code, so only history/sharing/schedule dependence is detected. Bytecode-level points come from sys.monitoring INSTRUCTION events (the legacy opcode tracing of sys.settrace crashes CPython 3.12.1 when the trace function raises). valida's module-level state is reset before every run and put back to import time for every reference computation.",
        technique="deterministic simulation: baton-passing real threads pre-empted at sys.settrace line/opcode events under a seeded scheduler, fault injection (abort, MemoryError at the deepcopy seam), digest + write-tracer invariants, fresh-object differential history oracle",
    ),
    "C16": dict(
        ref="DESIGN.md 5.3",
        text="Seeded search over histories: callers interleaved at operation boundaries parse entries of a pool of shared, mutually aliasing spec structures through every entry point (incl. Schema.from_yaml / from_yaml_file on YAML text with anchors), repeatedly; after every parse every spec's type-exact digest must be unchanged, the k-th parse must equal (==) and behave like the first, and both must equal parsing a fresh deep copy; the specs are compared once more after each result has been put to read-only use (validate/test/filter/get_data, to_tree, to_json_like, ...).",
        note="Trusts: the harness' type-exact snapshot; behaviour compared on probe documents only. Operation-boundary histories only.",
        technique="deterministic simulation: seeded operation-boundary interleaving of parse operations over shared aliasing spec structures; digest invariants + first-vs-kth-vs-fresh differential oracle",
    ),
    "C18": dict(
        ref="DESIGN.md 5.4",
        text="Seeded search over histories: callers interleaved at operation boundaries issue add_schema (same T under several roots, into several S, chains) and validate; after every step every schema is compared structurally and behaviourally with an executable reference model (list of rule terms; add = append re-rooted + stable sort), T's digests must be unchanged and no Rule object may be shared unless the model says so. Fault kind: add_schema calls the library refuses (root that is not a path) in 30 % of the histories; a refused call is a no-op in the model.",
        note="Trusts: the reference model's reading of 're-rooted' = root parts followed by the rule's parts, modifiers kept; behaviour compared on the world's documents. Operation-boundary histories only; never two writers on one S.",
        technique="deterministic simulation: seeded operation-boundary interleaving of add_schema/validate over shared schemas with injected refused calls; executable list-of-rules reference model checked after every step",
    ),
}


def main():
    checks = []
    for pid in sorted(CHECKS):
        c = CHECKS[pid]
        checks.append(
            {
                "property_id": pid,
                "quick_cmd": f"./check {pid} --tier quick",
                "thorough_cmd": f"./check {pid} --tier thorough",
                "evidence_file": f"/verif/evidence/{pid}.json",
                "replay_cmd_template": f"./check {pid} --replay {{path}}",
                "engine": "valida-dst",
                "level_claimed": {"category": "exploration", "text": c["text"], "design_ref": c["ref"]},
                "level_note": c["note"],
                "technique": c["technique"],
            }
        )
    m = {
        "version": 1,
        "setup_cmd": "cd /verif && ./check selftest setup",
        "hooks": {
            "guard": "VALIDA_VERIF_HOOKS",
            "enable": "no source hooks: every seam is reached from outside (sys.settrace; rebinding the `copy` module global of valida.rules / valida.schema; __setattr__ wrappers installed on valida classes in the checking process only). The guard name is reserved and unused; checks import /repo's working tree directly (PYTHONPATH), nothing is built.",
            "baseline_off_cmd": "cd /repo && /venv/bin/python -m pytest -ra -q -p no:cacheprovider --timeout=900 --continue-on-collection-errors",
            "source_commits": [],
            "add_only": True,
        },
        "engines": [
            {
                "name": "valida-dst",
                "path": "/verif/sim",
                "serves_properties": sorted(CHECKS),
                "kind_free_text": "deterministic simulator written for this repository: seeded scheduler over caller programs sharing one object graph (operation-boundary interleaving; line/opcode-level pre-emption of baton-passing real threads via sys.settrace), fault injection (abort at a pre-emption point, MemoryError at the deepcopy seam), structural digests + attribute-write tracer as run-time monitors, fresh-object reference runs and small executable models as history oracles, ddmin minimiser, JSON replay files, known-findings file",
            }
        ],
        "checks": checks,
        "notes": "Exit 0 = held on everything explored, 1 = VIOLATION line(s) with replay file, 2 = harness error. ./check selftest determinism re-runs seeds twice and in fresh interpreters under other PYTHONHASHSEEDs. Fixed defects are listed in known_findings.json (status fixed) and their replay files under regressions/ are re-run by every check.",
        "not_applicable": [{"property_id": k, "reason": v} for k, v in sorted(NA.items())],
    }
    import sys

    only = sys.argv[1:]
    if only:
        m["checks"] = [c for c in m["checks"] if c["property_id"] in only]
        m["engines"][0]["serves_properties"] = only
        for pid in sorted(CHECKS):
            if pid not in only:
                m["not_applicable"].append({"property_id": pid, "reason": "claimed in DESIGN.md; its check is still being built in this commit and will be registered when it runs end to end"})
        m["not_applicable"].sort(key=lambda d: d["property_id"])
    with open("/verif/MANIFEST.json", "w") as fh:
        json.dump(m, fh, indent=1)


main()
