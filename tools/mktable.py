#!/venv/bin/python
"""Rewrite the seeded-change table of DESIGN.md section 10.3 from
seeded/RESULTS.json (between the markers below)."""
import json
import os

VERIF = os.path.dirname(os.path.dirname(os.path.abspath(__file__)))
BEGIN = "<!-- seeded-table:begin -->"
END = "<!-- seeded-table:end -->"


def main():
    r = json.load(open(os.path.join(VERIF, "seeded", "RESULTS.json")))
    names = sorted(k for k in r if not r[k].get("negative_control"))
    neg = sorted(k for k in r if r[k].get("negative_control"))
    rows = []
    for k in names:
        v = r[k]
        meta = json.load(open(os.path.join(VERIF, "seeded", k, "meta.json")))
        need = meta.get("needs_to_manifest", "").replace("|", "/")
        if v["caught"]:
            sig = v["signatures"][0]
            by = v.get("caught_by") or v["property"]
            tag = "" if by == v["property"] else f" (by {by}'s check)"
            rows.append(f"| `{k}` | {v['property']} | {need[:170]} | `{sig['oracle']}` @ `{sig['locus'][:64]}`{tag} | {sum(x['occurrences'] for x in v['signatures'])} | {sig['first_seed_index']} |")
        else:
            rows.append(f"| `{k}` | {v['property']} | {need[:170]} | **not caught** - outside what {v['property']} states (see text) | 0 | - |")
    caught = sum(1 for k in names if r[k]["caught"])
    silent = sum(1 for k in neg if r[k]["silent"])
    body = (
        f"{BEGIN}\n"
        f"Current state (quick tier, seed 0, from `seeded/RESULTS.json`; \"n\" = failing runs in the batch, \"first\" = index of the\n"
        f"first failing seed): **{caught} of {len(names)} breaking changes caught, {silent} of {len(neg)} negative controls silent, no harness error.**\n\n"
        "| Change | Breaks | Needs, in order to manifest | Caught by (first signature) | n | first |\n|---|---|---|---|---|---|\n"
        + "\n".join(rows)
        + f"\n{END}"
    )
    p = os.path.join(VERIF, "DESIGN.md")
    s = open(p).read()
    if BEGIN in s:
        s = s[: s.index(BEGIN)] + body + s[s.index(END) + len(END) :]
    else:
        start = s.index("Current state (quick tier, seed 0")
        end = s.index("**Negative controls.**")
        s = s[:start] + body + "\n\n" + s[end:]
    open(p, "w").write(s)
    print(f"{caught}/{len(names)} caught, {silent}/{len(neg)} silent")


main()
