"""Delta-debugging of failing cases (DESIGN.md 4.10).

A candidate is kept only if re-running it deterministically yields the *same
violation signature*; candidates that no longer build, raise in the harness or
give another signature are rejected.
"""
import copy
import time

OPS = ("and", "or", "xor")


class Budget:
    def __init__(self, seconds, max_tests):
        self.deadline = time.monotonic() + seconds
        self.left = max_tests
        self.tests = 0

    def ok(self):
        return self.left > 0 and time.monotonic() < self.deadline

    def spend(self):
        self.left -= 1
        self.tests += 1


# --------------------------------------------------------------------------
# term variants
# --------------------------------------------------------------------------


def doc_variants(d, top=False):
    """Simpler versions of a native document value."""
    if isinstance(d, dict):
        if not top:
            yield 0
        for k in list(d):
            if len(d) > 1 or not top:
                c = dict(d)
                del c[k]
                yield c
        for k, v in d.items():
            if isinstance(v, (dict, list)) and v and top:
                yield v
            elif not top:
                yield v
            for vv in doc_variants(v):
                c = dict(d)
                c[k] = vv
                yield c
    elif isinstance(d, list):
        if not top:
            yield 0
        for i in range(len(d)):
            if len(d) > 1 or not top:
                yield d[:i] + d[i + 1 :]
        for i, v in enumerate(d):
            if isinstance(v, (dict, list)) and v and top:
                yield v
            elif not top:
                yield v
            for vv in doc_variants(v):
                c = list(d)
                c[i] = vv
                yield c
    elif isinstance(d, bool):
        if d:
            yield False
    elif isinstance(d, int):
        if d != 0:
            yield 0
        if abs(d) > 1:
            yield 1
    elif isinstance(d, float):
        if d != 0.0:
            yield 0.0
    elif isinstance(d, str):
        if d:
            yield ""
        if len(d) > 1:
            yield d[0]
    elif d is None:
        pass


TRIVIAL_LEAF = ("leaf", "Value", "truthy", (), ())


def arg_variants(a):
    tag = a[0]
    if tag == "v":
        for v in doc_variants(a[1]):
            yield ("v", v)
    elif tag in ("path", "pref"):
        yield ("v", 0)
        if tag == "path":
            for p in path_variants(a[1]):
                yield ("path", p)
    elif tag == "lv":
        items = a[1]
        for i in range(len(items)):
            yield ("lv", items[:i] + items[i + 1 :])
        for i, it in enumerate(items):
            for v in arg_variants(it):
                yield ("lv", items[:i] + (v,) + items[i + 1 :])
    elif tag == "tyl":
        if len(a[1]) > 1:
            for i in range(len(a[1])):
                yield ("tyl", a[1][:i] + a[1][i + 1 :])


def cond_variants(t):
    tag = t[0]
    if tag in OPS:
        yield t[1]
        yield t[2]
        for v in cond_variants(t[1]):
            yield (tag, v, t[2])
        for v in cond_variants(t[2]):
            yield (tag, t[1], v)
        if tag != "and":
            yield ("and", t[1], t[2])
    elif tag == "leaf":
        _, cls, meth, args, kwargs = t
        if t != TRIVIAL_LEAF:
            yield ("null",)
            if cls.startswith("Value"):
                yield TRIVIAL_LEAF
        for i, a in enumerate(args):
            for v in arg_variants(a):
                yield ("leaf", cls, meth, args[:i] + (v,) + args[i + 1 :], kwargs)
        for i, (k, a) in enumerate(kwargs):
            for v in arg_variants(a):
                yield ("leaf", cls, meth, args, kwargs[:i] + ((k, v),) + kwargs[i + 1 :])
    elif tag == "cref":
        yield ("null",)


def part_variants(p):
    tag = p[0]
    if tag in ("map", "list", "mol"):
        kws = p[1]
        for i in range(len(kws)):
            yield (tag, kws[:i] + kws[i + 1 :])
        for i, (k, v) in enumerate(kws):
            if k == "label":
                continue
            if v[0] == "v":
                for vv in doc_variants(v[1]):
                    yield (tag, kws[:i] + ((k, ("v", vv)),) + kws[i + 1 :])
            else:
                for vv in cond_variants(v):
                    if vv != ("null",):
                        yield (tag, kws[:i] + ((k, vv),) + kws[i + 1 :])


def path_variants(t):
    tag = t[0]
    if tag == "path":
        parts, dmod, mmod = t[1], t[2], t[3]
        rest = t[4:]
        if dmod is not None:
            yield ("path", parts, None, mmod) + rest
        if mmod is not None:
            yield ("path", parts, dmod, None) + rest
        if rest and rest[0] is not None:
            yield ("path", parts, dmod, mmod, None)
        for i in range(len(parts)):
            yield ("path", parts[:i] + parts[i + 1 :], dmod, mmod) + rest
        for i, p in enumerate(parts):
            for v in part_variants(p):
                yield ("path", parts[:i] + (v,) + parts[i + 1 :], dmod, mmod) + rest
    elif tag == "from_str":
        s = t[1]
        if "/" in s:
            yield ("from_str", s.rsplit("/", 1)[0]) + t[2:]
            yield ("from_str", s.split("/", 1)[1]) + t[2:]


def rule_variants(t):
    _, path, cond, cast, doc = t
    if cast is not None:
        yield ("rule", path, cond, None, doc)
        if len(cast) > 1:
            for i in range(len(cast)):
                yield ("rule", path, cond, cast[:i] + cast[i + 1 :], doc)
    if doc is not None:
        yield ("rule", path, cond, cast, None)
    for v in cond_variants(cond):
        yield ("rule", path, v, cast, doc)
    for v in path_variants(path):
        yield ("rule", v, cond, cast, doc)


def schema_variants(t):
    if t[0] != "schema":
        return
    _, refs = t
    for i in range(len(refs)):
        yield ("schema", refs[:i] + refs[i + 1 :])


def spec_variants(t):
    """Raw spec structures: drop keys / items, shrink scalars."""
    if isinstance(t, dict):
        for k in list(t):
            c = dict(t)
            del c[k]
            yield c
        for k, v in t.items():
            for vv in spec_variants(v):
                c = dict(t)
                c[k] = vv
                yield c
    elif isinstance(t, list):
        for i in range(len(t)):
            yield t[:i] + t[i + 1 :]
        for i, v in enumerate(t):
            for vv in spec_variants(v):
                c = list(t)
                c[i] = vv
                yield c
    elif isinstance(t, tuple):
        return
    elif isinstance(t, str):
        return
    else:
        yield from doc_variants(t)


WORLD_VARIANTS = {
    "docs": lambda t: doc_variants(t, top=True),
    "conds": cond_variants,
    "parts": part_variants,
    "paths": path_variants,
    "rules": rule_variants,
    "schemas": schema_variants,
    "specs": spec_variants,
    "roots": lambda t: path_variants(t) if t[0] == "path" else iter(()),
}


# --------------------------------------------------------------------------
# the minimiser
# --------------------------------------------------------------------------


def minimise(case, test, seconds=20.0, max_tests=4000, op_variants=None, log=None):
    """`test(case) -> bool` (same signature persists).  Returns (case, tests)."""
    b = Budget(seconds, max_tests)
    case = copy.deepcopy(case)

    def attempt(cand):
        if not b.ok():
            return False
        b.spend()
        try:
            return bool(test(cand))
        except Exception:
            return False

    changed = True
    rounds = 0
    while changed and b.ok():
        changed = False
        rounds += 1
        # 1. drop whole callers (empty their program)
        for c in range(len(case["programs"])):
            if case["programs"][c]:
                cand = copy.deepcopy(case)
                cand["programs"][c] = []
                if attempt(cand):
                    case, changed = cand, True
        # 2. drop operations, last first
        for c in range(len(case["programs"])):
            i = len(case["programs"][c]) - 1
            while i >= 0 and b.ok():
                cand = copy.deepcopy(case)
                del cand["programs"][c][i]
                if attempt(cand):
                    case, changed = cand, True
                i -= 1
        # 3. drop faults
        i = len(case.get("faults", ())) - 1
        while i >= 0 and b.ok():
            cand = copy.deepcopy(case)
            cand["faults"] = [f for j, f in enumerate(case["faults"]) if j != i]
            if attempt(cand):
                case, changed = cand, True
            i -= 1
        # 4. fewer context switches: all at once, then chunks (ddmin), then singly
        if len(case.get("decisions", ())) > 0:
            cand = copy.deepcopy(case)
            cand["decisions"] = []
            if attempt(cand):
                case, changed = cand, True
        dec = list(case.get("decisions", ()))
        chunk = len(dec) // 2
        while chunk >= 1 and b.ok():
            i = 0
            while i < len(dec) and b.ok():
                cand_dec = dec[:i] + dec[i + chunk :]
                cand = copy.deepcopy(case)
                cand["decisions"] = cand_dec
                if cand_dec != dec and attempt(cand):
                    dec = cand_dec
                    case, changed = cand, True
                else:
                    i += chunk
            chunk = chunk // 2
        # 5. shrink operations' own arguments
        if op_variants is not None:
            for c in range(len(case["programs"])):
                for i in range(len(case["programs"][c])):
                    progress = True
                    while progress and b.ok():
                        progress = False
                        for v in op_variants(case["programs"][c][i]):
                            cand = copy.deepcopy(case)
                            cand["programs"][c][i] = v
                            if attempt(cand):
                                case, changed, progress = cand, True, True
                                break
        # 6. shrink world terms
        for kind, fn in WORLD_VARIANTS.items():
            entries = case["world"].get(kind)
            if not entries:
                continue
            for i in range(len(entries)):
                progress = True
                while progress and b.ok():
                    progress = False
                    for v in fn(case["world"][kind][i]):
                        cand = copy.deepcopy(case)
                        cand["world"][kind][i] = v
                        if attempt(cand):
                            case, changed, progress = cand, True, True
                            break
    # final cosmetic step: drop callers whose program is empty and renumber the
    # others (kept only if the same signature persists)
    cand = compact_callers(case)
    if cand is not None and attempt(cand):
        case = cand
    return case, b.tests


def compact_callers(case):
    progs = case["programs"]
    keep = [i for i, p in enumerate(progs) if p]
    if len(keep) == len(progs) or not keep:
        return None
    remap = {old: new for new, old in enumerate(keep)}
    cand = copy.deepcopy(case)
    cand["programs"] = [progs[i] for i in keep]
    dec = []
    for step, frm, to in case.get("decisions", ()):
        if to not in remap:
            continue
        dec.append((step, remap.get(frm, -1), remap[to]))
    cand["decisions"] = dec
    return cand
