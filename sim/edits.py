"""Caller-side edits of the caller's own documents between operations.

A caller may change their document between two validations; afterwards every
read must reflect the document as it is now (i.e. equal the same read on fresh
objects built from the current content).  Anything that remembered the
document by identity (a wrapper cache keyed by id(), a memoised result) is
exposed by this.  Edits only happen at operation boundaries of runs without
pre-emption: a caller that edits a document while another thread reads it has
a race of its own.
"""
import copy

from .gen import iter_nodes, get_at


def gen_edit(r, g, doc):
    """An edit term for `doc`: ("set"|"del"|"append", path, value)."""
    nodes = [n for n in iter_nodes(doc) if n[0]]
    if not nodes or r.random() < 0.15:
        if isinstance(doc, dict):
            return ("set", (g.key(),), g.value(1))
        return ("append", (), g.scalar())
    path, v = r.choice(nodes)
    c = r.random()
    if c < 0.55:
        # type-changing but ==-equal replacements are the interesting ones for caches
        if isinstance(v, bool):
            nv = int(v)
        elif isinstance(v, int) and r.random() < 0.5:
            nv = float(v) if r.random() < 0.5 else (v == 1 if v in (0, 1) else v + 1)
        else:
            nv = g.value(1)
        return ("set", path, nv)
    if c < 0.7:
        return ("del", path, None)
    if c < 0.85 and isinstance(v, list):
        return ("append", path, g.scalar())
    return ("set", path, g.value(2))


def apply_edit(doc, edit):
    """Apply in place; edits that no longer fit the document are no-ops.
    Never empties the top-level container."""
    kind, path, value = edit
    try:
        if kind == "append":
            tgt = get_at(doc, path)
            if isinstance(tgt, list):
                tgt.append(copy.deepcopy(value))
            return
        parent = get_at(doc, path[:-1])
        k = path[-1]
        if kind == "set":
            if isinstance(parent, dict):
                parent[k] = copy.deepcopy(value)
            elif isinstance(parent, list) and isinstance(k, int) and not isinstance(k, bool) and 0 <= k < len(parent):
                parent[k] = copy.deepcopy(value)
        elif kind == "del":
            if parent is doc and len(doc) <= 1:
                return
            if isinstance(parent, dict) and k in parent:
                del parent[k]
            elif isinstance(parent, list) and isinstance(k, int) and not isinstance(k, bool) and 0 <= k < len(parent):
                del parent[k]
    except (KeyError, IndexError, TypeError):
        pass
