"""The simulator proper (DESIGN.md 4.4 - 4.8).

* `Monitor`      : registry of pre-existing shared objects, their structural
                   digests, and the harness-installed attribute-write tracer.
* `CopyShim`     : the `copy` seam of valida.rules / valida.schema (alloc_fail).
* `Engine`       : runs caller programs over one shared world, either at
                   operation boundaries (single thread) or pre-emptively (real
                   threads, one baton, `sys.settrace` pre-emption points), under
                   a seeded or scripted strategy, injecting faults, recording a
                   history.

A run is a pure function of (world term, programs, strategy/decisions, faults,
code): no clock, no OS scheduling choice, no hash-order dependence.
"""
import hashlib
import os
import pickle
import signal
import sys
import threading

import valida
import valida.rules
import valida.schema

from .terms import snap, diff_path, attr_locus, _slot_names

VALIDA_DIR = os.path.dirname(os.path.abspath(valida.__file__)) + os.sep
# code whose lines / instructions are pre-emption points (the engine self-test
# adds a toy module of its own)
TRACE_DIRS = (VALIDA_DIR,)


class HarnessError(Exception):
    """Something went wrong in the harness itself; never a verdict."""


class SimAbort(BaseException):
    """Asynchronous cancellation injected at a pre-emption point."""


class SimKill(BaseException):
    """Unwinds parked caller threads when the harness itself has failed."""


class OpTimeout(BaseException):
    """An operation exceeded its step budget (pre-emptive mode, deterministic)
    or OP_WALL_LIMIT seconds of wall time (operation-boundary mode, where no
    tracer counts steps).  Reported as the violation
    `operation_did_not_terminate`, never as a harness error."""


OP_WALL_LIMIT = 60.0  # seconds; ordinary operations take milliseconds
LOCK_STALL_S = 2.0  # no step for this long: the baton holder is blocked on a real lock
RUN_WALL_LIMIT = 600.0  # a single pre-emptive run (harness-level safety net)


# --------------------------------------------------------------------------
# write tracer + digests
# --------------------------------------------------------------------------

_TRACED_CLASSES = None
_ACTIVE_MONITOR = None


def _install_write_tracer():
    """Install `__setattr__` / `__delattr__` wrappers on the valida classes, in
    this (checking) process only.  They pass through to `object.__setattr__`
    (which still honours property setters such as DataPath.DATUM_TYPE)."""
    global _TRACED_CLASSES
    if _TRACED_CLASSES is not None:
        return
    from valida.conditions import ConditionLike, PreparedConditionCallable
    from valida.datapath import DataPath, ContainerValue
    from valida.rules import Rule
    from valida.schema import Schema
    from valida.data import Data

    classes = [ConditionLike, PreparedConditionCallable, DataPath, ContainerValue, Rule, Schema, Data]
    # plus every valida class that defines an attribute hook of its own (it
    # would otherwise shadow the wrapper installed on its base class)
    for name, mod in sorted(sys.modules.items()):
        if mod is not None and (name == "valida" or name.startswith("valida.")):
            for v in vars(mod).values():
                if isinstance(v, type) and getattr(v, "__module__", "").startswith("valida") and v not in classes:
                    if "__setattr__" in v.__dict__ or "__delattr__" in v.__dict__:
                        classes.append(v)

    def make(cls):
        base_set = cls.__setattr__  # the class's own hook, or object.__setattr__
        base_del = cls.__delattr__

        def __setattr__(self, name, value):
            base_set(self, name, value)
            m = _ACTIVE_MONITOR
            if m is not None and id(self) in m.ids:
                m.on_write(self, name, sys._getframe(1))

        def __delattr__(self, name):
            base_del(self, name)
            m = _ACTIVE_MONITOR
            if m is not None and id(self) in m.ids:
                m.on_write(self, name, sys._getframe(1))

        cls.__setattr__ = __setattr__
        cls.__delattr__ = __delattr__

    for c in classes:
        make(c)
    _TRACED_CLASSES = classes


def _walk_instances(obj, seen, out, depth=0):
    """All valida instances reachable from obj (through attributes, tuples,
    lists, dicts)."""
    oid = id(obj)
    if oid in seen or depth > 60:
        return
    if isinstance(obj, (str, int, float, bool, type(None), type)):
        return
    seen.add(oid)
    if isinstance(obj, (list, tuple)):
        for i in obj:
            _walk_instances(i, seen, out, depth + 1)
    elif isinstance(obj, dict):
        for k, v in obj.items():
            _walk_instances(v, seen, out, depth + 1)
    elif type(obj).__module__.startswith("valida") and not isinstance(obj, type):
        out.append(obj)
        vals = list(vars(obj).values()) if hasattr(obj, "__dict__") else []
        for n in _slot_names(type(obj)):
            if hasattr(obj, n):
                vals.append(getattr(obj, n))
        for v in vals:
            _walk_instances(v, seen, out, depth + 1)


def _fingerprint(obj):
    """Fast pre-filter for `Monitor.check`: the pickle of an object graph is
    type exact (int/bool/float, list/tuple, key order) and functions / classes
    are written by qualified name, so *equal bytes imply an unchanged state*.
    Unequal bytes prove nothing (pickle also encodes object identity patterns),
    so in that case the full structural snapshot decides."""
    try:
        return pickle.dumps(obj, 4)
    except Exception:
        return None


class Monitor:
    def __init__(self):
        _install_write_tracer()
        self.labels = []
        self.objs = []
        self.init = []
        self.fp = []  # fast fingerprints (pickle bytes): equal bytes => unchanged
        self.fp_all = None
        self.ids = {}  # id -> label, for every valida instance reachable from a registered object
        self._keep = []  # strong refs so ids are not re-used during the run
        self.writes = []  # (class.attr, site) as they happen
        self.pending_write = False
        self.engine = None

    def register(self, label, obj):
        self.labels.append(label)
        self.objs.append(obj)
        self.init.append(snap(obj))
        self.fp.append(_fingerprint(obj))
        self.fp_all = _fingerprint(self.objs)
        found = []
        _walk_instances(obj, set(), found)
        for o in found:
            if id(o) not in self.ids:
                self.ids[id(o)] = label
                self._keep.append(o)

    def rebaseline(self):
        """Accept the current state as the new baseline (after a caller-side
        edit of the caller's own document)."""
        self.check()

    def light_objects(self):
        """The builtin containers valida could store into without the write
        tracer seeing it: registered lists / dicts themselves (documents, spec
        structures) and every list / dict / set held directly in an attribute
        of a registered valida instance (Schema.rules, Rule.cast, Rule.doc,
        callable kwargs, Data._values ...).  Small enough to fingerprint at
        EVERY pre-emption point."""
        out = [o for o in self.objs if isinstance(o, (list, dict))]
        for o in self._keep:
            vals = list(vars(o).values()) if hasattr(o, "__dict__") else []
            vals += [getattr(o, n) for n in _slot_names(type(o)) if hasattr(o, n)]
            for v in vals:
                if isinstance(v, (list, dict, set)):
                    out.append(v)
        return out

    def activate(self):
        global _ACTIVE_MONITOR
        _ACTIVE_MONITOR = self

    def deactivate(self):
        global _ACTIVE_MONITOR
        _ACTIVE_MONITOR = None

    def on_write(self, obj, name, frame):
        fn = frame.f_code.co_filename
        site = f"{os.path.basename(fn)}:{frame.f_code.co_name}"
        what = f"{type(obj).__name__}.{name}"
        self.writes.append((what, site, frame.f_lineno))
        self.pending_write = True
        if self.engine is not None:
            self.engine.note_write(what, site, frame.f_lineno)

    def check(self):
        """Labels and diff paths of registered objects whose digest changed."""
        bad = []
        if self.fp_all is not None and _fingerprint(self.objs) == self.fp_all:
            return bad
        for i, (label, obj, init, fp) in enumerate(zip(self.labels, self.objs, self.init, self.fp)):
            if fp is not None and _fingerprint(obj) == fp:
                continue  # bit-identical serialisation: nothing changed
            try:
                now = snap(obj)
            except RecursionError:
                now = ("unsnappable",)
            if now != init:
                bad.append((label, diff_path(init, now)))
            # re-baseline: a change is reported once; later checks look for
            # *further* changes (and stay cheap while the state stays put)
            self.init[i] = now
            self.fp[i] = _fingerprint(obj)
        self.fp_all = _fingerprint(self.objs)
        return bad


class CopyShim:
    """Stands in for the `copy` module global of valida.rules / valida.schema:
    the seam through which the private document copy is made.  Passes through
    to the real module except when an `alloc_fail` fault is due."""

    def __init__(self, real):
        self._real = real
        self.engine = None

    def deepcopy(self, x, memo=None):
        eng = self.engine
        if eng is not None and eng.in_caller():
            eng.alloc_calls += 1
            if eng.alloc_calls in eng.alloc_fail_at:
                eng.note_fault("alloc_fail", f"deepcopy#{eng.alloc_calls}")
                raise MemoryError("simulated allocation failure while copying the document")
        return self._real.deepcopy(x) if memo is None else self._real.deepcopy(x, memo)

    def copy(self, x):
        return self._real.copy(x)

    def __getattr__(self, name):
        return getattr(self._real, name)


_SHIM = None


def install_copy_shim():
    global _SHIM
    if _SHIM is None:
        import copy as _copy

        _SHIM = CopyShim(_copy)
        valida.rules.copy = _SHIM
        valida.schema.copy = _SHIM
    return _SHIM


# --------------------------------------------------------------------------
# strategies
# --------------------------------------------------------------------------


class Scripted:
    """Replay: decisions {step: target}."""

    name = "scripted"

    def __init__(self, decisions):
        self.d = {int(s): int(t) for s, _f, t in decisions}

    def decide(self, eng, step, cur, cur_ok, runnable, mid_op):
        t = self.d.get(step)
        if t is not None and t in runnable:
            return t
        return cur if cur_ok else min(runnable)


class RandomStrategy:
    name = "random"

    def __init__(self, rng, p):
        self.r = rng
        self.p = p

    def decide(self, eng, step, cur, cur_ok, runnable, mid_op):
        if not cur_ok:
            return self.r.choice(runnable)
        if len(runnable) > 1 and self.r.random() < self.p:
            return self.r.choice([c for c in runnable if c != cur])
        return cur


class PCT:
    """Random caller priorities, d priority-change points in [0, K)."""

    name = "pct"

    def __init__(self, rng, n, d, K):
        self.r = rng
        self.prio = list(range(n))
        rng.shuffle(self.prio)
        self.prio = [p + d + 1 for p in self.prio]
        self.change = sorted(rng.randrange(max(K, 1)) for _ in range(d))
        self.low = d

    def decide(self, eng, step, cur, cur_ok, runnable, mid_op):
        while self.change and self.change[0] <= step:
            self.change.pop(0)
            if cur_ok:
                self.prio[cur] = self.low
                self.low -= 1
        return max(runnable, key=lambda c: self.prio[c])


class Stratified:
    """One switch per operation, at a position drawn from a decile of that
    operation's solo step count."""

    name = "stratified"

    def __init__(self, rng, solo_steps):
        self.r = rng
        self.targets = {}
        for key, n in solo_steps.items():
            dec = rng.randrange(10)
            lo = (n * dec) // 10
            hi = max(lo + 1, (n * (dec + 1)) // 10)
            self.targets[key] = rng.randrange(lo, hi) if hi > lo else lo

    def decide(self, eng, step, cur, cur_ok, runnable, mid_op):
        if not cur_ok:
            return self.r.choice(runnable)
        if mid_op and len(runnable) > 1:
            key = (cur, eng.op_index[cur])
            if eng.op_local_steps[cur] == self.targets.get(key, -1):
                return self.r.choice([c for c in runnable if c != cur])
        return cur


class Targeted:
    """Switch the first time each operation reaches a chosen valida function
    (drawn per run from the reach-probe list), otherwise rarely at random:
    places pre-emptions inside short, rarely hit windows (set_datum,
    extract_paths, the on-the-fly combination in MapOrListValue.filter ...)."""

    name = "targeted"

    def __init__(self, rng, target, p=0.002):
        self.r = rng
        self.target = target
        self.done = set()
        self.p = p

    def decide(self, eng, step, cur, cur_ok, runnable, mid_op):
        if not cur_ok:
            return self.r.choice(runnable)
        if mid_op and len(runnable) > 1:
            f = eng.cur_frame
            key = (cur, eng.op_index[cur])
            if f is not None and f.f_code.co_qualname == self.target and key not in self.done:
                # a few lines into the function, not always at its first line
                if self.r.random() < 0.5:
                    self.done.add(key)
                    return self.r.choice([c for c in runnable if c != cur])
            elif self.r.random() < self.p:
                return self.r.choice([c for c in runnable if c != cur])
        return cur


class PingPong:
    """Two callers brought into the SAME valida function, then interleaved step
    by step for a short while: explores the narrow windows (a value parked on
    one line and read back on the next, check-then-act) that coarse random
    switching rarely splits.  Phase 0: the first caller to be inside `target`
    is parked there.  Phase 1: another caller runs until it, too, is inside
    `target` (or its operation ends).  Phase 2: the two alternate, switching
    with probability 1/2 at every point, for `n` points.  Then no more
    voluntary switches."""

    name = "pingpong"

    def __init__(self, rng, target, n=None):
        self.r = rng
        self.target = target
        self.n = n if n is not None else rng.randint(6, 60)
        self.phase = 0
        self.a = self.b = None

    def _inside(self, eng):
        f = eng.cur_frame
        depth = 0
        while f is not None and depth < 6:
            if f.f_code.co_qualname == self.target:
                return True
            f = f.f_back
            depth += 1
        return False

    def decide(self, eng, step, cur, cur_ok, runnable, mid_op):
        others = [c for c in runnable if c != cur]
        if not cur_ok:
            if self.phase in (1, 2) and self.a in runnable and cur == self.b:
                return self.a  # b's operation ended: back to the parked caller
            return self.r.choice(runnable)
        if not others or not mid_op:
            if self.phase == 1 and cur == self.b and self.a in runnable and not mid_op:
                return self.a
            return cur
        if self.phase == 0:
            if self._inside(eng) and self.r.random() < 0.3:
                self.phase, self.a, self.b = 1, cur, self.r.choice(others)
                return self.b
            return cur
        if self.phase == 1:
            if cur == self.b and self._inside(eng) and self.r.random() < 0.5:
                self.phase = 2
                return self.a if self.a in runnable else cur
            return cur
        if self.phase == 2:
            self.n -= 1
            if self.n <= 0:
                self.phase = 3
                return cur
            pair = [c for c in (self.a, self.b) if c in runnable]
            if len(pair) == 2 and self.r.random() < 0.5:
                return self.b if cur == self.a else self.a
            return cur
        return cur


PINGPONG_TARGETS = (
    "Rule.test",
    "RuleTest.__init__",
    "RuleTest._test",
    "DataPath.get_data",
    "DataPath.__init__",
    "Condition._filter",
    "ConditionLike.filter",
    "ConditionBinaryOp._filter",
    "MapOrListValue.filter",
    "MapValue.filter",
    "ListValue.filter",
    "ValidatedData.__init__",
    "Schema.validate",
    "PreparedConditionCallable.__call__",
    "PreparedConditionCallable._get_resolved_data_path_args",
    "Data.__init__",
    "Data.get",
    "FilteredData.__init__",
    "set_datum",
)


class AfterWrite:
    """Switch right after a store into a pre-existing shared object; otherwise
    a low-rate random strategy."""

    name = "after-write"

    def __init__(self, rng, p=0.01):
        self.r = rng
        self.p = p

    def decide(self, eng, step, cur, cur_ok, runnable, mid_op):
        if not cur_ok:
            return self.r.choice(runnable)
        if len(runnable) > 1 and (eng.write_since_last_point or self.r.random() < self.p):
            return self.r.choice([c for c in runnable if c != cur])
        return cur


# --------------------------------------------------------------------------
# engine
# --------------------------------------------------------------------------

PROBE_FUNCS = {
    "MapOrListValue.filter": "in_MapOrListValue.filter",
    "ConditionBinaryOp.__init__": "in_ConditionBinaryOp.__init__",
    "Data.extract_paths": "in_Data.extract_paths",
    "set_datum": "in_set_datum",
    "Rule.test": "in_Rule.test",
    "PreparedConditionCallable._get_resolved_data_path_args": "in_resolve_path_args",
    "ValidatedData.__init__": "in_ValidatedData.__init__",
    "DataPath.get_data": "in_DataPath.get_data",
    "Condition._filter": "in_Condition._filter",
    "RuleTest._test": "in_RuleTest._test",
    "Schema.add_schema": "in_Schema.add_schema",
}


class Engine:
    def __init__(
        self,
        world,
        programs,
        exec_op,
        monitor,
        strategy,
        mode="op",
        granularity="line",
        faults=(),
        digest_every=31,
        max_steps=400_000,
        on_boundary=None,
        light_every_step=False,
        light_window=None,
        global_probe=None,
    ):
        self.world = world
        self.programs = programs
        self.exec_op = exec_op
        self.monitor = monitor
        self.strategy = strategy
        self.mode = mode
        self.point_event = "opcode" if granularity == "opcode" else "line"
        self.digest_every = max(1, int(digest_every))
        self.max_steps = max_steps
        self.on_boundary = on_boundary  # callback(engine, caller, op_idx, op, outcome) -> list of violations
        self.light_every_step = light_every_step
        self.light = monitor.light_objects() if light_every_step else None
        self.light_fp = _fingerprint(self.light) if light_every_step else None
        self.light_checks = 0
        self.light_window = light_window  # (first step, last step) or None = always
        self.global_probe = global_probe  # callable -> token of module / class level state
        self.global_token = global_probe() if global_probe is not None else None
        self.global_writes = 0

        self.abort_at = {}
        self.alloc_fail_at = set()
        for f in faults:
            if f[0] == "abort":
                self.abort_at[int(f[1])] = True
            elif f[0] == "alloc_fail":
                self.alloc_fail_at.add(int(f[1]))
        self.alloc_calls = 0

        n = len(programs)
        self.n = n
        self.step = 0
        self.seq = 0
        self.events = []
        self.decisions = []
        self.violations = []  # dicts
        self.faults_fired = []
        self.outcomes = {}  # (caller, op_idx) -> outcome
        self.op_steps = {}  # (caller, op_idx) -> pre-emption points inside the operation
        self.finished = [len(p) == 0 for p in programs]
        self.op_index = [0] * n
        self.op_local_steps = [0] * n
        self.in_op = [False] * n
        self.suspended_site = ["start"] * n
        self.write_since_last_point = False
        self.switches = 0
        self.mid_op_switches = 0
        self.site_pairs = set()
        self.probes = {}
        self.harness_error = None
        self.killed = False
        self.park_order = []  # callers waiting for the baton, most recently parked last
        self.blocked = set()  # callers the baton was taken from while blocked on a real lock
        self.hold_until_boundary = set()  # lock holders that are not pre-empted again before their operation ends
        self.lock_stalls = 0
        self.suspend_faults = False
        self.last_check_step = 0
        self.writes_seen = 0
        self.digest_checks = 0
        self.cur_frame = None
        self.current = None
        self._caller_tids = set()
        self._tid_caller = {}
        self._bad_seen = set()

    # -- bookkeeping -----------------------------------------------------
    def in_caller(self):
        if self.suspend_faults:
            return False  # harness-side reference computation during the run
        return self.mode == "op" or threading.get_ident() in self._caller_tids

    def log(self, *ev):
        self.events.append(ev)

    def note_write(self, what, site, lineno):
        self.write_since_last_point = True
        self.log("write", self.step, self.current, what, site, lineno)

    def note_fault(self, kind, detail):
        c = self.current
        k = self.op_index[c] if c is not None and c >= 0 else None
        self.faults_fired.append((kind, self.step, c, detail, k))
        self.log("fault", self.step, self.current, kind, detail)

    def add_violation(self, oracle, locus, detail, **extra):
        key = (oracle, locus)
        if key in self._bad_seen:
            return
        self._bad_seen.add(key)
        v = {"oracle": oracle, "locus": locus, "detail": detail, "step": self.step, "caller": self.current}
        v.update(extra)
        self.violations.append(v)
        self.log("violation", self.step, oracle, locus)

    def check_digests(self, where):
        self.last_check_step = self.step
        self.digest_checks += 1
        bad = self.monitor.check()
        recent = self.monitor.writes[self.writes_seen :]
        self.writes_seen = len(self.monitor.writes)
        for label, path in bad:
            last_write = recent[-1] if recent else None
            for w in reversed(recent):  # prefer a traced store that is on the diff path
                if any(p == w[0] for p in (path or ())):
                    last_write = w
                    break
            locus = attr_locus(path)
            if last_write is not None:
                # a traced attribute store on the diff path names the site exactly
                if any(p == last_write[0] for p in (path or ())):
                    locus = last_write[0]
                locus = f"{locus}@{last_write[1]}"
            hook = getattr(self, "locus_hook", None)
            if hook is not None:
                locus = hook(self, label, path, last_write) or locus
            self.add_violation(
                "shared_object_mutated",
                locus,
                {"object": label, "diff": list(path or ()), "where": where, "last_traced_write": last_write},
            )
        return bad

    def event_digest(self):
        return hashlib.sha256(repr(self.events).encode()).hexdigest()

    def schedule_digest(self):
        return hashlib.sha256(repr(self.decisions).encode()).hexdigest()[:16]

    # -- running ------------------------------------------------------------
    def run(self):
        shim = install_copy_shim()
        shim.engine = self
        self.monitor.engine = self
        self.monitor.activate()
        try:
            if self.mode == "op":
                self._run_op()
            else:
                self._run_pre()
        finally:
            self.monitor.deactivate()
            self.monitor.engine = None
            shim.engine = None
        if self.harness_error is not None:
            raise HarnessError(f"in caller thread: {self.harness_error!r}") from self.harness_error
        self.check_digests("end")
        return self

    def _unfinished(self):
        return [c for c in range(self.n) if not self.finished[c]]

    def _runnable(self):
        """Callers a strategy may give the baton to: unfinished and not known to
        be blocked on a real lock (see _wait_for_run).  If only blocked callers
        are left, those (the lock holder is done, so they can proceed)."""
        un = self._unfinished()
        free = [c for c in un if c not in self.blocked]
        return free or un

    def _decide(self, cur, cur_ok, mid_op):
        runnable = self._runnable()
        if not runnable:
            return None
        t = self.strategy.decide(self, self.step, cur, cur_ok, runnable, mid_op)
        if t not in runnable:
            raise HarnessError(f"strategy chose non-runnable caller {t}")
        if t != cur:
            self.decisions.append((self.step, cur, t))
        return t

    def _do_op(self, c):
        k = self.op_index[c]
        op = self.programs[c][k]
        self.seq += 1
        self.log("invoke", self.seq, c, k, op)
        self.in_op[c] = True
        self.op_local_steps[c] = 0
        watchdog = self.mode == "op" and threading.current_thread() is threading.main_thread()
        if watchdog:
            old = signal.signal(signal.SIGALRM, _on_alarm)
            signal.setitimer(signal.ITIMER_REAL, OP_WALL_LIMIT)
        try:
            out = self.exec_op(self.world, op)
        except SimAbort:
            out = ("aborted",)
        except OpTimeout:
            out = ("timeout",)
            self.add_violation(
                "operation_did_not_terminate",
                str(op[0]),
                {"op": op, "limit": f"{OP_WALL_LIMIT}s wall" if self.mode == "op" else f"{self.max_steps} steps"},
            )
            if self.mode != "op":
                raise
        finally:
            if watchdog:
                signal.setitimer(signal.ITIMER_REAL, 0)
                signal.signal(signal.SIGALRM, old)
            self.in_op[c] = False
        self.seq += 1
        self.op_steps[(c, k)] = self.op_local_steps[c]
        self.outcomes[(c, k)] = out
        self.log("return", self.seq, c, k, hashlib.sha256(repr(out).encode()).hexdigest()[:16])
        self.op_index[c] = k + 1
        if self.op_index[c] >= len(self.programs[c]):
            self.finished[c] = True
        return k, op, out

    def _after_op(self, c, k, op, out):
        self.hold_until_boundary.discard(c)
        self.step += 1
        self.check_digests(f"after op {c}.{k}")
        if self.on_boundary is not None:
            for v in self.on_boundary(self, c, k, op, out) or ():
                self.add_violation(**v)

    # op-boundary mode: one thread, strategy picks who runs the next operation
    def _run_op(self):
        cur = self._decide(-1, False, False)
        while cur is not None:
            self.current = cur
            k, op, out = self._do_op(cur)
            if out == ("timeout",):
                break
            self._after_op(cur, k, op, out)
            cur = self._decide(cur, not self.finished[cur], False)

    # pre-emptive mode ----------------------------------------------------------
    def _run_pre(self):
        if self.point_event == "opcode":
            _Instr.install(self._on_instruction)
            try:
                self._run_pre_inner()
            finally:
                _Instr.uninstall()
        else:
            self._run_pre_inner()

    def _on_instruction(self, code, offset):
        """sys.monitoring INSTRUCTION callback (opcode granularity)."""
        if not code.co_filename.startswith(TRACE_DIRS):
            return sys.monitoring.DISABLE
        c = self._tid_caller.get(threading.get_ident())
        if c is None or not self.in_op[c] or self.killed:
            return None
        self._point(c, sys._getframe(1))
        return None

    def _run_pre_inner(self):
        self.sems = [threading.Semaphore(0) for _ in range(self.n)]
        self.main_sem = threading.Semaphore(0)
        threads = [threading.Thread(target=self._caller, args=(c,), daemon=True) for c in range(self.n)]
        for t in threads:
            t.start()
        first = self._decide(-1, False, False)
        if first is None:
            for c in range(self.n):
                self.sems[c].release()
        else:
            self.current = first
            self.sems[first].release()
            ok = self._wait_for_run()
            if not ok or self.harness_error is not None:
                self.killed = True
            for c in range(self.n):  # wake parked / idle callers so they exit
                self.sems[c].release()
            if not ok:
                raise HarnessError("pre-emptive run did not finish (baton lost?)")
        for t in threads:
            t.join(timeout=30)
            if t.is_alive():
                raise HarnessError("caller thread did not exit")

    def _wait_for_run(self):
        """Main thread: wait until the last caller finishes.  valida takes no
        locks, but a change to it might: if the caller holding the baton blocks
        on a real lock that a *parked* caller holds, nobody can run.  That is
        noticed here as LOCK_STALL_S seconds without a single step; the baton is
        then given to the most recently parked caller (the likely holder) and
        the blocked one parks itself at its next pre-emption point.  (Wall-clock
        based, and the one place where two callers can briefly overlap; it never
        triggers on a valida without locks and is counted in the evidence.)"""
        import time

        deadline = time.monotonic() + RUN_WALL_LIMIT
        last = None
        since = time.monotonic()
        while True:
            if self.main_sem.acquire(timeout=0.25):
                return True
            now = time.monotonic()
            prog = (self.step, self.seq, self.switches)
            if prog != last:
                last, since = prog, now
            elif now - since > LOCK_STALL_S:
                holders = [c for c in reversed(self.park_order) if not self.finished[c] and c != self.current and c not in self.blocked]
                if not holders:
                    return False
                blocked, new = self.current, holders[0]
                self.lock_stalls += 1
                self.blocked.add(blocked)
                self.log("unblock", self.step, blocked, new)
                self.current = new
                self.hold_until_boundary.add(new)  # the likely lock holder: let it finish its operation
                self.sems[new].release()
                since = now
            if now > deadline:
                return False

    def _caller(self, c):
        self.sems[c].acquire()
        if not self.programs[c] or self.killed:
            return
        self._caller_tids.add(threading.get_ident())
        self._tid_caller[threading.get_ident()] = c
        opcode = self.point_event == "opcode"
        tracer = None if opcode else self._make_tracer(c)
        try:
            while not self.finished[c]:
                if not opcode:
                    sys.settrace(tracer)
                try:
                    k, op, out = self._do_op(c)
                finally:
                    if not opcode:
                        sys.settrace(None)
                self._after_op(c, k, op, out)
                t = self._decide(c, not self.finished[c], False)
                if t is None:
                    break
                if t != c:
                    self._handoff(c, t, f"boundary:{c}.{k}", wait=not self.finished[c])
        except SimKill:
            return
        except OpTimeout:
            # recorded as a violation by _do_op; stop the whole run
            self.killed = True
            for cc in range(self.n):
                self.finished[cc] = True
        except BaseException as e:  # noqa: harness failure inside a caller thread
            self.harness_error = e
            self.finished[c] = True
        finally:
            sys.settrace(None)
            if self.harness_error is not None or self.killed or not self._unfinished():
                self.main_sem.release()

    def _handoff(self, c, t, site, wait=True):
        self.switches += 1
        self.site_pairs.add((site, self.suspended_site[t]))
        self.suspended_site[c] = site
        self.log("switch", self.step, c, t, site)
        self.current = t
        if wait:
            if c in self.park_order:
                self.park_order.remove(c)
            self.park_order.append(c)
        if t in self.blocked:
            # t is not parked on its semaphore: it is blocked on a real lock and
            # simply gets the baton for when it acquires it
            self.blocked.discard(t)
        else:
            self.sems[t].release()
        if wait:
            self.sems[c].acquire()
            if self.killed:
                raise SimKill()

    def _make_tracer(self, c):
        def ltrace(frame, event, arg):
            if event == "line":
                self._point(c, frame)
            return ltrace

        def gtrace(frame, event, arg):
            if event == "call" and frame.f_code.co_filename.startswith(TRACE_DIRS):
                return ltrace
            return None

        return gtrace

    def _point(self, c, frame):
        """A pre-emption point inside an operation of caller c."""
        if c != self.current:
            if c in self.blocked:
                # this caller was blocked on a real lock and the baton was taken
                # from it (see _wait_for_run): it has the lock now; park until
                # it is given the baton again
                self.blocked.discard(c)
                if c in self.park_order:
                    self.park_order.remove(c)
                self.park_order.append(c)
                self.sems[c].acquire()
                if self.killed:
                    raise SimKill()
            else:
                raise HarnessError(f"baton exclusivity violated: caller {c} runs while {self.current} holds the baton")
        self.step += 1
        step = self.step
        self.op_local_steps[c] += 1
        if step > self.max_steps:
            raise OpTimeout()
        if self.write_since_last_point or step - self.last_check_step >= self.digest_every:
            self.check_digests(f"step {step}")
        elif self.light_fp is not None and (self.light_window is None or self.light_window[0] <= step <= self.light_window[1]):
            # transient stores into builtin containers (invisible to the write
            # tracer) are looked for at every single point
            self.light_checks += 1
            fp = _fingerprint(self.light)
            if fp != self.light_fp:
                self.light_fp = fp
                self.check_digests(f"step {step} (container fingerprint changed)")
        if step in self.abort_at:
            del self.abort_at[step]
            site = _site(frame)
            self.note_fault("abort", site)
            self._probe(frame, "abort")
            self.write_since_last_point = False
            raise SimAbort()
        if self.global_probe is not None:
            tok = self.global_probe()
            if tok != self.global_token:
                self.global_token = tok
                self.write_since_last_point = True  # a store into process-wide state
                self.global_writes += 1
        if c in self.hold_until_boundary:
            return  # (see _wait_for_run) no voluntary switch while it may hold a real lock
        self.cur_frame = frame
        t = self._decide(c, True, True)
        self.cur_frame = None
        self.write_since_last_point = False
        if t != c:
            self.mid_op_switches += 1
            self._probe(frame, "switch")
            self._handoff(c, t, _site(frame))
            # resumed: state may have been changed by others in the meantime
            if self.step - self.last_check_step >= self.digest_every:
                self.check_digests(f"resume {c} at step {self.step}")

    def _probe(self, frame, kind):
        f = frame
        depth = 0
        seen = set()
        while f is not None and depth < 40:
            code = f.f_code
            if code.co_filename.startswith(TRACE_DIRS):
                q = code.co_qualname
                p = PROBE_FUNCS.get(q)
                if p and p not in seen:
                    seen.add(p)
                    key = f"{kind}_{p}"
                    self.probes[key] = self.probes.get(key, 0) + 1
            f = f.f_back
            depth += 1


def _on_alarm(signum, frame):
    raise OpTimeout()


def _site(frame):
    code = frame.f_code
    return f"{os.path.basename(code.co_filename)}:{code.co_qualname}:{frame.f_lineno}"


# --------------------------------------------------------------------------
# calibration: solo, traced run of one operation on a fresh world
# --------------------------------------------------------------------------


class _Instr:
    """Opcode-granularity pre-emption points come from sys.monitoring
    INSTRUCTION events (PEP 669), not from `frame.f_trace_opcodes`: with the
    legacy opcode tracing of sys.settrace, any exception leaving the trace
    function (an injected abort, or a RecursionError because the traced code is
    at the recursion limit) makes CPython 3.12.1 remove the instrumentation in
    the middle of an instrumented instruction and crash."""

    TOOL = 0  # sys.monitoring.DEBUGGER_ID

    @classmethod
    def install(cls, callback):
        m = sys.monitoring
        if m.get_tool(cls.TOOL) is None:
            m.use_tool_id(cls.TOOL, "valida-dst")
        m.register_callback(cls.TOOL, m.events.INSTRUCTION, callback)
        m.set_events(cls.TOOL, m.events.INSTRUCTION)

    @classmethod
    def uninstall(cls):
        m = sys.monitoring
        m.set_events(cls.TOOL, 0)
        m.register_callback(cls.TOOL, m.events.INSTRUCTION, None)


def count_steps(fn, granularity="line", cap=2_000_000, funcs=None):
    """Run fn() under a counting tracer; returns (result, number of valida
    line/opcode events).  Raises OpTimeout beyond `cap` events.  If `funcs` is
    a set, the qualified names of the valida functions executed are added."""
    n = [0]
    if granularity == "opcode":

        def cb(code, offset):
            if not code.co_filename.startswith(TRACE_DIRS):
                return sys.monitoring.DISABLE
            n[0] += 1
            if funcs is not None:
                funcs.add(code.co_qualname)
            if n[0] > cap:
                raise OpTimeout()

        _Instr.install(cb)
        try:
            res = fn()
        finally:
            _Instr.uninstall()
        return res, n[0]

    def ltrace(frame, event, arg):
        if event == "line":
            n[0] += 1
            if n[0] > cap:
                raise OpTimeout()
        return ltrace

    def gtrace(frame, event, arg):
        if event == "call" and frame.f_code.co_filename.startswith(TRACE_DIRS):
            if funcs is not None:
                funcs.add(frame.f_code.co_qualname)
            return ltrace
        return None

    old = sys.gettrace()
    sys.settrace(gtrace)
    try:
        res = fn()
    finally:
        sys.settrace(old)
    return res, n[0]
