"""C06 - schema verdict is the order-independent conjunction of its rules'
verdicts (DESIGN.md 5.5).

One set of Rule objects is built once and shared by several Schema objects,
each given the rule list in a seeded permutation (identity and reversal always
among them); callers validate the documents against the schemas in a seeded,
operation-boundary-interleaved order.  Oracles: conservation (conjunction /
sum / count) against per-rule reference runs on fresh single rules; permutation
invariance over the recorded history; stable shortest-first order; the report
is a str naming every failing path.
"""
import re

from .. import gen as G
from ..common import Report, stream, digest, order_to_decisions, big
from ..engine import Engine, Monitor, Scripted
from ..edits import gen_edit, apply_edit
from ..isolation import pristine_state
from ..terms import World, snap, rule_projection

PID = "C06"


def generate(seed):
    r = stream(seed, "world")
    knobs = G.default_knobs(r, casts=False, key_kind_rules=False, bound_paths=False)
    knobs["risky_callables"] = r.random() < 0.1
    g = G.Gen(r, knobs)
    d0 = g.top_doc()
    mixed = isinstance(d0, dict) and r.random() < 0.3
    if mixed:
        # a mapping whose keys have several types (all legal YAML/JSON-like keys)
        d0["mix"] = {k: g.scalar() for k in r.sample(["a", "b", 0, 2, 1.5, True, None, ""], r.randint(2, 5))}
    docs = [d0] + [g.variant(d0) for _ in range(r.randint(1, 3))]
    ctx = g.context(docs)
    n_rules = r.choice([0, 1, 2, 2, 3, 3, 4, 5, 6]) + (r.randint(1, 4) if big(r) else 0)
    rules = []
    if mixed:
        # a wildcard rule over it that usually fails at several keys
        rules.append(("rule", ("path", (("prim", "mix"), ("map", ())), None, None), r.choice([("leaf", "Value", "equal_to", (("v", "no such value"),), ()), ("leaf", "Value.dtype", "equal_to", (("ty", "list"),), ()), g.value_leaf(ctx)]), None, None))
        n_rules = max(n_rules, 1)
    for _ in range(n_rules - len(rules)):
        if rules and r.random() < 0.12:
            rules.append(r.choice(rules))  # a duplicate rule (equal, distinct object)
            continue
        if rules and r.random() < 0.15:
            nd = _near_duplicate(r, r.choice(rules))
            if nd is not None:
                rules.append(nd)  # same condition, path differing in one int part only
                continue
        t = g.rule(ctx, cast_ok=False, mods=True)
        rules.append(("rule", t[1], t[2], None, t[4]))
    n_rules = len(rules)
    idx = list(range(n_rules))
    perms = [tuple(idx), tuple(reversed(idx))]
    for _ in range(r.randint(0, 3)):
        p = idx[:]
        r.shuffle(p)
        perms.append(tuple(p))
    if n_rules and r.random() < 0.15:
        # the same Rule object supplied twice in one list
        p = list(perms[-1])
        p.insert(r.randrange(len(p) + 1), r.choice(idx))
        perms.append(tuple(p))
    schemas = [("schema", p) for p in perms]

    n_callers = r.randint(1, 3)
    pairs = [(si, di) for si in range(len(schemas)) for di in range(len(docs))]
    r.shuffle(pairs)
    if r.random() < 0.3:
        pairs += r.sample(pairs, min(len(pairs), 3))  # some repeated validations
    programs = [[] for _ in range(n_callers)]
    order = []
    p_edit = r.choice([0.0, 0.0, 0.1, 0.25])
    for si, di in pairs:
        c = r.randrange(n_callers)
        if r.random() < p_edit:
            # the caller changes their own document between two validations
            programs[c].append(("edit", di, gen_edit(r, g, docs[di])))
            order.append(c)
        programs[c].append(("validate", si, di))
        order.append(c)
    return {
        "property": PID,
        "seed": seed,
        "knobs": knobs,
        "world": {"docs": docs, "rules": rules, "schemas": schemas},
        "programs": programs,
        "decisions": order_to_decisions(order),
    }


def _near_duplicate(r, rule):
    path = rule[1]
    if path[0] != "path":
        return None
    idx = [i for i, p in enumerate(path[1]) if p[0] == "prim" and isinstance(p[1], int) and not isinstance(p[1], bool)]
    if not idx:
        return None
    i = r.choice(idx)
    old = path[1][i][1]
    if r.random() < 0.4:
        # equal as a number, different as a part: 1 / 1.0 / True (an int part means
        # "key or index", a float part "key only")
        new = r.choice([float(old)] + ([bool(old)] if old in (0, 1) else []))
    else:
        new = r.choice([x for x in (0, 1, 2) if x != old])
    parts = path[1][:i] + (("prim", new),) + path[1][i + 1 :]
    return ("rule", ("path", parts) + tuple(path[2:]), rule[2], None, rule[4])


# --------------------------------------------------------------------------


def names_path(report, path):
    """Does the text name this failing path?  The statement does not fix a
    format, so besides the tuple repr used today any single line mentioning
    every element of the path, in order, counts."""
    if repr(path) in report:
        return True
    elems = [str(e) for e in path]
    if not elems:
        return True  # the document root: there is nothing to spell out
    pat = ".*?".join(re.escape(e) for e in elems)
    return any(re.search(pat, line) for line in report.splitlines())


def core_rt(rt):
    """A rule test's verdict without its textual report (the report has its
    own oracle; if it were part of the reference, a report that raises would
    raise on both sides and be skipped as 'undefined')."""
    return (
        "rt",
        rt.tested,
        rt.is_valid,
        rt.num_failures,
        tuple((f.index, snap(f.value), snap(f.path), snap(f.reasons)) for f in rt.failures),
    )


def exec_op(world, op):
    if op[0] == "edit":
        _, di, edit = op
        apply_edit(world.get("docs", di), edit)
        world.state["edits"].setdefault(di, []).append(edit)
        world.monitor.rebaseline()
        return ("ok", "edited")
    _, si, di = op
    try:
        vd = world.get("schemas", si).validate(world.get("docs", di))
        world.state["last"] = ("ok", vd)
        return ("ok", "validated")
    except Exception as e:
        world.state["last"] = ("raise", type(e).__name__)
        return ("raise", type(e).__name__)


def reference(world, ri, di):
    """Verdict of ONE rule on one document: a fresh Rule built from the term,
    tested alone."""
    st = world.state
    edits = st["edits"].get(di, ())
    key = (ri, di, len(edits))
    if key not in st["ref"]:
        with pristine_state():
            fresh = World(world.term)
            try:
                doc = fresh.get("docs", di)
                for e in edits:
                    apply_edit(doc, e)
                rt = fresh.get("rules", ri).test(doc)
                st["ref"][key] = ("ok", core_rt(rt))
            except Exception as e:
                st["ref"][key] = ("raise", type(e).__name__)
    return st["ref"][key]


def on_boundary(eng, c, k, op, out):
    world = eng.world
    st = world.state
    term = world.term
    vio = []
    if op[0] == "edit":
        return vio
    _, si, di = op
    schema = world.get("schemas", si)
    supplied = term["schemas"][si][1]
    # (i) stable shortest-first order of what was supplied.  Rules are
    # recognised by what they are (path, condition, cast, doc), not by object
    # identity: a schema may well keep copies of the caller's Rule objects.
    projs = st["rule_proj"]
    lens = st["path_len"]
    model = sorted(supplied, key=lambda i: lens[i])
    try:
        actual = [rule_projection(r) for r in schema.rules]
    except Exception:
        actual = None
    want = [projs[i] for i in model]
    st["checked_order"] += 1
    if actual != want:
        if actual is None or sorted(actual, key=repr) != sorted(want, key=repr):
            kind = "not_a_permutation"
        else:
            try:
                alens = [len(r.path) for r in schema.rules]
            except Exception:
                alens = None
            kind = "not_shortest_first" if alens != sorted(alens or [1, 0]) else "ties_not_in_given_order"
        vio.append(dict(oracle="rule_order", locus=kind, detail={"schema": si, "supplied": supplied, "expected_order": model}))
        return vio
    refs = [reference(world, ri, di) for ri in model]
    if any(rf[0] == "raise" for rf in refs):
        st["skipped_raising_rule"] += 1
        st["history"].append((si, di, 0, None))
        return vio
    last = st["last"]
    if last[0] == "raise":
        vio.append(dict(oracle="aggregate_mismatch", locus=f"validate_raises:{last[1]}", detail={"op": op}))
        return vio
    vd = last[1]
    st["checked_conservation"] += 1
    # every rule is applied (no short-circuit)
    if len(vd.rule_tests) != len(model):
        vio.append(dict(oracle="aggregate_mismatch", locus="number_of_rule_tests", detail={"op": op, "expected": len(model), "got": len(vd.rule_tests)}))
        return vio
    # each rule test equals its rule's own verdict
    for pos, (ri, rf, rt) in enumerate(zip(model, refs, vd.rule_tests)):
        try:
            got = core_rt(rt)
        except Exception as e:
            got = ("raise", type(e).__name__)
        if got != rf[1]:
            vio.append(dict(oracle="aggregate_mismatch", locus="rule_test_differs_from_single_rule", detail={"op": op, "position": pos, "rule": ri, "expected": repr(rf[1])[:400], "got": repr(got)[:400]}))
            return vio
    exp_valid = all(rf[1][2] for rf in refs)
    exp_fail = sum(rf[1][3] for rf in refs)
    exp_tested = sum(1 for rf in refs if rf[1][1])
    got = {}
    for name in ("is_valid", "num_failures", "num_rules_tested"):
        try:
            got[name] = getattr(vd, name)
        except Exception as e:
            got[name] = ("raise", type(e).__name__)
    want = {"is_valid": exp_valid, "num_failures": exp_fail, "num_rules_tested": exp_tested}
    for name in want:
        if snap(got[name]) != snap(want[name]):
            vio.append(dict(oracle="aggregate_mismatch", locus=name, detail={"op": op, "expected": want, "got": repr(got)}))
            return vio
    if model:
        # the statement does not mention the fraction: diagnostic only
        try:
            if vd.frac_rules_tested != exp_tested / len(model):
                st["diag_frac_differs"] += 1
        except Exception:
            st["diag_frac_differs"] += 1
    # (iv) the report
    try:
        report = vd.get_failures_string()
    except Exception as e:
        report = ("raise", type(e).__name__)
    st["checked_report"] += 1
    if not isinstance(report, str):
        vio.append(dict(oracle="report_not_str", locus="valid" if exp_valid else "invalid", detail={"op": op, "got": repr(report)[:200]}))
        return vio
    # "always a string, naming every failing path": also when asked again
    try:
        report2 = vd.get_failures_string()
    except Exception as e:
        report2 = ("raise", type(e).__name__)
    if not isinstance(report2, str):
        vio.append(dict(oracle="report_not_str", locus="second_call", detail={"op": op, "got": repr(report2)[:200]}))
        return vio
    pairs = []
    for ri, rt in zip(model, vd.rule_tests):
        for f in rt.failures:
            pairs.append((ri, snap(f.path)))
            for which, text in (("first_call", report), ("second_call", report2)):
                if not names_path(text, f.path):
                    vio.append(dict(oracle="report_omits_path", locus=which, detail={"op": op, "path": repr(f.path), "report": text[:600]}))
                    return vio
    agg = (exp_valid, exp_fail, exp_tested, tuple(sorted(pairs, key=repr)))
    st["history"].append((si, di, len(st["edits"].get(di, ())), agg))
    st["kept"].append((vd, op, agg))  # read again at the end of the run
    return vio


def run(case):
    term = case["world"]
    world = World(term)
    for i in range(len(term["schemas"])):
        world.get("schemas", i)
    for i in range(len(term["rules"])):
        world.get("rules", i)
    mon = Monitor()  # nothing registered: whether inputs stay unchanged is C08's statement, not C06's
    world.state = {
        "rule_proj": [rule_projection(world.get("rules", i)) for i in range(len(term["rules"]))],
        "path_len": [len(world.get("rules", i).path) for i in range(len(term["rules"]))],
        "kept": [],
        "diag_frac_differs": 0,
        "ref": {},
        "edits": {},
        "last": None,
        "history": [],
        "checked_order": 0,
        "checked_conservation": 0,
        "checked_report": 0,
        "skipped_raising_rule": 0,
    }
    world.monitor = mon
    eng = Engine(world, case["programs"], exec_op, mon, Scripted(case["decisions"]), mode="op", on_boundary=on_boundary)
    eng.run()
    st = world.state
    # a result must keep saying what it said: verdict, counts and failing pairs
    # of every ValidatedData handed out are read again after the whole history
    reread = 0
    if not eng.violations:
        for vd, op, agg in st["kept"]:
            try:
                pairs = []
                model = sorted(term["schemas"][op[1]][1], key=lambda i: st["path_len"][i])
                for ri, rt in zip(model, vd.rule_tests):
                    for f in rt.failures:
                        pairs.append((ri, snap(f.path)))
                now = (vd.is_valid, vd.num_failures, vd.num_rules_tested, tuple(sorted(pairs, key=repr)))
            except Exception as e:
                now = ("raise", type(e).__name__)
            reread += 1
            if now != agg:
                field = "raise" if now[0] == "raise" else next(n for n, x, y in zip(("is_valid", "num_failures", "num_rules_tested", "failing_pairs"), agg, now) if x != y)
                eng.add_violation("result_changed_after_later_validations", field, {"op": op, "at_return": repr(agg)[:300], "at_end_of_run": repr(now)[:300]})
                break
    # (iii) permutation / order invariance over the recorded history (implied by
    # the conservation checks above, which tie every validation to references
    # that do not depend on the order; kept as an explicit cross-check)
    by_doc = {}
    perms_seen = {}
    for si, di, epoch, agg in st["history"]:
        if agg is None:
            continue
        perms_seen.setdefault(di, set()).add(term["schemas"][si][1])
        # schemas with an extra duplicate of a rule are a different rule multiset;
        # a document edited by its owner is a different document
        mkey = (di, epoch, tuple(sorted(term["schemas"][si][1])))
        if mkey in by_doc and by_doc[mkey][1] != agg:
            a, b = by_doc[mkey][1], agg
            field = next(n for n, x, y in zip(("is_valid", "num_failures", "num_rules_tested", "failing_pairs"), a, b) if x != y)
            eng.add_violation(
                "order_dependence",
                field,
                {"doc": di, "schema_a": by_doc[mkey][0], "schema_b": si, "a": repr(a)[:400], "b": repr(b)[:400]},
            )
            break
        by_doc.setdefault(mkey, (si, agg))
    n_perm = len({s[1] for s in term["schemas"]})
    key = digest((term, case["programs"], case["decisions"]))
    n_rules = len(term["rules"])
    any_invalid = any(agg is not None and not agg[0] for _s, _d, _e, agg in st["history"])
    stats = {
        "runs": 1,
        "ops": sum(len(p) for p in case["programs"]),
        "steps": eng.step,
        "validations": len(st["history"]),
        "validations_invalid_verdict": sum(1 for _s, _d, _e, agg in st["history"] if agg is not None and not agg[0]),
        "caller_side_document_edits": sum(len(v) for v in st["edits"].values()),
        "validations_skipped_rule_raises": st["skipped_raising_rule"],
        "order_checks": st["checked_order"],
        "conservation_checks": st["checked_conservation"],
        "report_checks": st["checked_report"],
        "results_reread_at_end": reread,
        "diagnostic_frac_rules_tested_differs": st["diag_frac_differs"],
        "distinct_permutations_in_run": n_perm,
        "empty_schemas": 1 if n_rules == 0 else 0,
        "set:histories": {key},
    }
    nontrivial = key if (n_rules >= 2 and n_perm >= 2 and any_invalid) else None
    return Report(eng.violations, stats, eng.event_digest(), case=case, nontrivial_key=nontrivial)


def sample(case):
    return {"world": case["world"], "programs": case["programs"], "decisions": case["decisions"]}


def evidence_info():
    return {
        "rule": (
            "one evaluation = one seeded configuration history: 0-6 cast-free rules (value-kind condition trees, paths with and without modifiers, paths "
            "selecting nothing, duplicate rules) built ONCE and shared by 2-6 schemas, each given the rule list in a seeded permutation (identity and "
            "reversal always present); 1-3 callers validate every document (2-4 variants) against every schema in a seeded operation-boundary interleaving, in a "
            "quarter of the runs editing their own documents in place between validations; near-duplicate rules (paths differing in one int part, or in the type of a numerically equal part) and mixed-type keys under a wildcard rule are generated on purpose. "
            "distinct = distinct (world, programs, interleaving) digests; non-trivial = at least 2 rules, at least 2 distinct permutations and at least one "
            "invalid verdict in the run."
        ),
        "components": {
            "real": ["all of valida from the working tree", "CPython 3.12"],
            "simulated": ["the permutation in which the rules are supplied and the order in which validations run over the shared Rule objects"],
            "shim": [],
            "stubbed": [],
            "reference_model": ["conjunction / sum / count over per-rule verdicts from fresh single rules; stable sort by path length"],
        },
        "assumptions": [
            "a single rule's verdict is taken from the code (fresh single rule, Rule.test); C05 is not claimed",
            "(schema, document) pairs on which some rule alone raises are skipped and counted (C07's business)",
            "frac_rules_tested is not requested for an empty schema (the statement does not define it)",
            "no fault applies; operation-boundary histories only",
        ],
    }
