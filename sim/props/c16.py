"""C16 - parsing a spec does not change the spec; re-parsing gives the same
object (DESIGN.md 5.3).

World = a pool of well-formed spec structures of every kind, generated WITH A
SHARING TABLE: a sub-structure (condition spec, part spec, part list, cast
block, doc block, rule spec) may be the *same Python object* in several specs,
as after loading YAML anchors or re-using a module-level constant.  History =
an op-boundary interleaving of callers parsing pool entries, repeatedly,
through every entry point.  After every parse: every spec's type-exact digest
is unchanged; the result equals (==) and behaves like the first parse of that
structure and like a parse of a fresh deep copy.
"""
import copy

from valida.conditions import ConditionLike
from valida.datapath import ContainerValue, DataPath
from valida.rules import Rule
from valida.schema import Schema

from .. import gen as G
from ..common import Report, stream, digest, order_to_decisions, big
from ..isolation import pristine_state
from ..engine import Engine, Monitor, Scripted
from ..ops import canon_fd, canon_rt, canon_vd
from ..terms import World, snap, diff_path, attr_locus

PID = "C16"

ENTRY_POINTS = {
    "cond": ("ConditionLike.from_spec", "ConditionLike.from_json_like"),
    "part": ("ContainerValue.from_spec",),
    "pathspec": ("DataPath.from_spec", "DataPath.from_json_like"),
    "partlist": ("DataPath.from_part_specs",),
    "rule": ("Rule.from_spec", "Rule.from_json_like"),
    "rules": ("Schema.from_json_like", "Schema.init_rules"),
    "yaml": ("Schema.from_yaml", "Schema.from_yaml_file"),
}


def parse(entry, spec):
    if entry == "ConditionLike.from_spec":
        return ConditionLike.from_spec(spec)
    if entry == "ConditionLike.from_json_like":
        return ConditionLike.from_json_like(spec)
    if entry == "ContainerValue.from_spec":
        return ContainerValue.from_spec(spec)
    if entry == "DataPath.from_spec":
        return DataPath.from_spec(spec)
    if entry == "DataPath.from_json_like":
        return DataPath.from_json_like(spec)
    if entry == "DataPath.from_part_specs":
        return DataPath.from_part_specs(*spec)
    if entry == "Rule.from_spec":
        return Rule.from_spec(spec)
    if entry == "Rule.from_json_like":
        return Rule.from_json_like(spec)
    if entry == "Schema.from_json_like":
        return Schema.from_json_like(spec)
    if entry == "Schema.init_rules":
        return Schema(Schema.init_rules(spec))
    if entry == "Schema.from_yaml":
        return Schema.from_yaml(spec)
    if entry == "Schema.from_yaml_file":
        # valida's only I/O seam: the text goes through a real file
        import os
        import tempfile

        from ..engine import SimKill

        try:
            fd, path = tempfile.mkstemp(prefix="valida_dst_", suffix=".yaml")
            with os.fdopen(fd, "w") as fh:
                fh.write(spec)
        except OSError as e:  # the harness's own I/O, not valida's
            raise SimKill(f"cannot write the temporary YAML file: {e!r}")
        try:
            return Schema.from_yaml_file(path)
        finally:
            os.unlink(path)
    raise ValueError(entry)


# --------------------------------------------------------------------------
# terms -> spec structures
# --------------------------------------------------------------------------

SINGLE = {
    "equal_to", "not_equal_to", "less_than", "greater_than", "less_than_or_equal_to", "greater_than_or_equal_to",
    "in_", "not_in", "factor_of", "has_factor", "keys_contain", "keys_contain_at_least_one_of", "keys_contain_at_most_one_of",
}
NOARG = {"truthy", "falsy", "null"}
STAR = {
    "is_instance", "keys_is_instance", "keys_contain_any_of", "keys_contain_all_of", "keys_contain_one_of", "keys_equal_to",
    "allowed_keys", "required_keys", "forbidden_keys",
}
ALIASES = {"length": ["length", "len"], "dtype": ["dtype", "type"]}


class SpecGen:
    def __init__(self, r, g, knobs):
        self.r = r
        self.g = g
        self.k = knobs

    def casing(self, s):
        r = self.r
        if self.k["case_variants"] and r.random() < 0.15:
            return r.choice([s.upper(), s.title(), s.capitalize()])
        return s

    def arg(self, a):
        tag = a[0]
        r = self.r
        if tag == "v":
            v = copy.deepcopy(a[1])
            if isinstance(v, dict) and self.k["escapes"]:
                pass
            return v
        if tag == "ty":
            return a[1] if r.random() < 0.7 else ("ty", a[1])
        if tag == "tyl":
            return [n if r.random() < 0.7 else ("ty", n) for n in a[1]]
        if tag == "path":
            return self.pathspec(a[1])
        if tag == "lv":
            return [self.arg(x) for x in a[1]]
        raise ValueError(a)

    def leaf(self, t):
        _, cls, meth, args, kwargs = t
        r = self.r
        toks = cls.lower().split(".")
        if len(toks) == 2:
            toks[1] = r.choice(ALIASES[toks[1]])
        name = meth
        if meth == "in_":
            name = r.choice(["in", "in_"])
        key = ".".join(self.casing(x) for x in toks + [name])
        if meth in NOARG:
            val = None
        elif meth in SINGLE:
            val = self.arg(args[0])
        elif meth in STAR:
            val = [self.arg(a) for a in args]
        elif meth == "in_range":
            lo, hi = self.arg(args[0]), self.arg(args[1])
            val = [lo, hi] if r.random() < 0.5 else {"lower": lo, "upper": hi}
        elif meth == "equal_to_approx":
            v = self.arg(args[0])
            if len(args) > 1:
                tol = self.arg(args[1])
                val = [v, tol] if r.random() < 0.5 else {"value": v, "tolerance": tol}
            else:
                val = {"value": v}
        elif meth in ("keys_contain_N_of", "keys_contain_at_least_N_of", "keys_contain_at_most_N_of"):
            n, ks = self.arg(args[0]), self.arg(args[1])
            val = [n, ks] if r.random() < 0.5 else {"N": n, "keys": ks}
        elif meth == "items_contain":
            val = {k: self.arg(a) for k, a in kwargs}
        else:
            raise KeyError(meth)
        if isinstance(val, dict) and self.k["escapes"] and meth in ("equal_to", "not_equal_to") and r.random() < 0.5:
            pass
        return {key: val}

    def cond(self, t):
        r = self.r
        if t[0] == "null":
            return None if r.random() < 0.5 else {}
        if t[0] == "leaf":
            return self.leaf(t)
        op = t[0]
        items = [t[1], t[2]]
        # flatten same-operator children into one list sometimes (left fold)
        if r.random() < 0.5 and t[1][0] == op:
            items = [t[1][1], t[1][2], t[2]]
        return {op: [self.cond(i) for i in items]}

    def part(self, p):
        r = self.r
        if p[0] == "prim":
            return p[1]
        tag, kws = p
        d = {}
        if tag == "map":
            d["type"] = "map_value"
        elif tag == "list":
            d["type"] = "list_value"
        elif r.random() < 0.5:
            d["type"] = "map_or_list_value"
        for k, v in kws:
            if k == "label":
                d["label"] = v
            elif v[0] == "v":
                d[f"{k}.equal_to"] = copy.deepcopy(v[1])
            elif v[0] == "leaf" and k in ("key", "index", "value") and r.random() < 0.4:
                # shorthand form:  "value.equal_to": 1
                (sk, sv), = self.leaf(v).items()
                if sk.lower().startswith(k + ".") and sk.lower() == sk:
                    d[sk] = sv
                else:
                    d[k] = {sk: sv}
            else:
                d[k] = self.cond(v)
        if r.random() < 0.1:
            d["label"] = "lbl"
        if r.random() < 0.2:
            # entries spelled out as null, as a YAML author may write them
            for k in r.sample(["key", "index", "value", "condition", "list_condition", "map_condition", "label"], r.randint(1, 3)):
                ok = {"map_value": ("key", "value", "condition", "label"), "list_value": ("index", "value", "condition", "label")}.get(d.get("type"), ("key", "index", "value", "condition", "list_condition", "map_condition", "label"))
                if k in ok and k not in d:
                    d[k] = None
        return d

    def partlist(self, path_term):
        return [self.part(p) for p in path_term[1]]

    def pathspec(self, path_term):
        r = self.r
        _, parts, dmod, mmod = path_term[:4]
        toks = ["path"]
        mods = []
        if mmod:
            mods.append(mmod)
        if dmod:
            mods.append(r.choice(ALIASES.get(dmod, [dmod])))
        if len(mods) == 2 and r.random() < 0.5:
            mods.reverse()
        key = ".".join(self.casing(x) for x in toks + mods)
        return {key: [self.part(p) for p in parts]}


def specable_cond(t):
    """No NoneType type names (not a spec type), no from_str paths, no bound paths."""
    if t[0] in ("and", "or", "xor"):
        return specable_cond(t[1]) and specable_cond(t[2])
    if t[0] == "leaf":
        for a in list(t[3]) + [a for _k, a in t[4]]:
            if not specable_arg(a):
                return False
        if t[2] == "not_in_range":
            return False
        if t[2] == "items_contain" and not t[4]:
            return False  # an empty mapping argument (see specable_arg)
        if t[2] != t[2].lower():
            return False  # spec keys are lower-cased by the parser: *_N_of cannot be spelled
    return True


def specable_arg(a):
    if a[0] == "ty":
        return a[1] != "NoneType"
    if a[0] == "tyl":
        return "NoneType" not in a[1]
    if a[0] == "path":
        return specable_path(a[1])
    if a[0] == "lv":
        return all(specable_arg(x) for x in a[1])
    if a[0] == "v":
        # an empty mapping as an argument (or one level inside it) makes the
        # data-path detection raise StopIteration: not a well-formed spec today
        x = a[1]
        if x == {} and isinstance(x, dict):
            return False
        if isinstance(x, list) and any(isinstance(i, dict) and not i for i in x):
            return False
        if isinstance(x, dict) and any(isinstance(i, dict) and not i for i in x.values()):
            return False
        return True
    return False


def specable_path(p):
    if p[0] != "path" or (len(p) > 4 and p[4] is not None):
        return False
    for part in p[1]:
        if part[0] == "prim":
            if isinstance(part[1], bool):
                continue
            continue
        for k, v in part[1]:
            if k != "label" and v[0] != "v" and not specable_cond(v):
                return False
    return True


# --------------------------------------------------------------------------
# generation
# --------------------------------------------------------------------------


def generate(seed):
    r = stream(seed, "world")
    knobs = G.default_knobs(r, from_str=False, bound_paths=False, key_kind_rules=False)
    knobs["case_variants"] = r.random() < 0.3
    knobs["escapes"] = r.random() < 0.5
    knobs["p_share"] = r.choice([0.0, 0.2, 0.5, 0.8])
    g = G.Gen(r, knobs)
    sg = SpecGen(r, g, knobs)
    d0 = g.top_doc()
    docs = [d0] + [g.variant(d0) for _ in range(r.randint(1, 2))]
    ctx = g.context(docs)

    specs, kinds = [], []

    def add(kind, s):
        specs.append(s)
        kinds.append(kind)
        return len(specs) - 1

    def pick(kind):
        """Maybe a reference to an existing pool entry of this kind."""
        cands = [i for i, k in enumerate(kinds) if k == kind]
        if cands and r.random() < knobs["p_share"]:
            return ("sref", r.choice(cands))
        return None

    def gen_cond():
        for _ in range(30):
            t = g.value_tree(ctx)
            if specable_cond(t):
                s = sg.cond(t)
                if knobs["escapes"] and r.random() < 0.15:
                    s = {"value.equal_to": {r"\path": [1, 2]}} if r.random() < 0.5 else {"value.in": [1, {r"\path": ["a"]}, {"path": ["a"]}]}
                return s
        return {"value.truthy": None}

    def gen_path_term():
        for _ in range(30):
            p = g.path_from_docs(ctx, allow_mods=True)
            if specable_path(p):
                return p
        return ("path", (("prim", "a"),), None, None)

    # building blocks
    for _ in range(r.randint(1, 3)):
        add("cond", gen_cond())
    for _ in range(r.randint(0, 2)):
        p = gen_path_term()
        gen_parts = [x for x in p[1] if x[0] != "prim"]
        if gen_parts:
            add("part", sg.part(r.choice(gen_parts)))
    for _ in range(r.randint(1, 2)):
        add("partlist", sg.partlist(gen_path_term()))
    for _ in range(r.randint(0, 2)):
        add("pathspec", sg.pathspec(gen_path_term()))
    if knobs["casts"]:
        for _ in range(r.randint(1, 2)):
            add("cast", r.choice([{"str": "bool"}, {"str": "int"}, {"str": "bool", "bool": "str"} if False else {"str": "int"}]))
    for _ in range(r.randint(0, 2)):
        c = r.random()
        if c < 0.3:
            add("doc", "A description.\n")
        elif c < 0.5:
            add("doc", ["line one\n", "line two"])
        else:
            # incl. blocks that are already in the parser's own normal form
            dd = {"description": r.choice(["text\n", ["a\n", "b"], ["a", "b"], ["a"]])}
            if r.random() < 0.5:
                dd["examples"] = r.choice([["ex 1\n", "ex 2"], ["ex 1"], []])
            add("doc", dd)

    # aliasing INSIDE one spec: the same sub-structure at two positions
    conds_i = [i for i, k in enumerate(kinds) if k == "cond"]
    parts_i = [i for i, k in enumerate(kinds) if k == "part"]
    if conds_i and r.random() < 0.5:
        a = r.choice(conds_i)
        b = a if r.random() < 0.6 else r.choice(conds_i)
        add("cond", {r.choice(["and", "or", "xor"]): [("sref", a), ("sref", b)] + ([("sref", a)] if r.random() < 0.3 else [])})
    if parts_i and r.random() < 0.5:
        a = r.choice(parts_i)
        add("partlist", [("sref", a), r.choice(["a", 0, "k1"]), ("sref", a)])
        if r.random() < 0.5:
            add("pathspec", {"path": [("sref", a), ("sref", a)]})

    def gen_rule():
        rule = {}
        pl = pick("partlist")
        if pl is None:
            t = g.rule(ctx, cast_ok=False)
            pt = t[1] if specable_path(t[1]) else ("path", (("prim", "a"),), None, None)
            pl = sg.partlist(pt)
            # parts may themselves be shared part specs
            for i, x in enumerate(pl):
                if isinstance(x, dict):
                    ref = pick("part")
                    if ref is not None:
                        pl[i] = ref
        rule["path"] = pl
        cd = pick("cond")
        rule["condition"] = cd if cd is not None else gen_cond()
        if knobs["casts"] and r.random() < 0.5:
            ct = pick("cast")
            rule["cast"] = ct if ct is not None else r.choice([{"str": "bool"}, {"str": "int"}])
        if r.random() < 0.4:
            dc = pick("doc")
            if dc is not None:
                rule["doc"] = dc
            else:
                rule["doc"] = r.choice(["text\n", ["a\n"], {"description": "d\n"}, {"description": ["d"], "examples": ["e\n"]}, {}, "", [], {"description": [], "examples": [" e "]}, [" a ", "b\n"], {"description": ["d"]}, {"description": ["d"], "examples": []}, {"description": ["d", "e"], "examples": ["x"]}])
        if r.random() < 0.5:
            rule = dict(sorted(rule.items(), key=lambda kv: r.random()))
        return rule

    for _ in range(r.randint(1, 4)):
        add("rule", gen_rule())
    for _ in range(r.randint(1, 2)):
        lst = []
        for _ in range(r.randint(1, 3)):
            ref = pick("rule")
            lst.append(ref if ref is not None else gen_rule())
        add("rules", lst)

    # the same rule lists as YAML text (anchors for shared sub-structures), when
    # everything in them is plain YAML data
    for i, k in list(enumerate(kinds)):
        if k == "rules" and r.random() < 0.6 and _yaml_safe(specs, specs[i]):
            add("yaml", ("yaml_of", i))

    targets = [i for i, k in enumerate(kinds) if k in ENTRY_POINTS]
    n_callers = r.randint(1, 3)
    programs = [[] for _ in range(n_callers)]
    order = []
    for _ in range(r.randint(2, 12) + (r.randint(4, 12) if big(r) else 0)):
        c = r.randrange(n_callers)
        if programs[c] and r.random() < 0.35:
            op = programs[c][-1]
            if r.random() < 0.5:
                op = ("parse", op[1], r.choice(ENTRY_POINTS[kinds[op[1]]]))
        else:
            si = r.choice(targets)
            op = ("parse", si, r.choice(ENTRY_POINTS[kinds[si]]))
        programs[c].append(op)
        order.append(c)
    return {
        "property": PID,
        "seed": seed,
        "knobs": knobs,
        "world": {"docs": docs, "specs": specs, "spec_kinds": kinds},
        "programs": programs,
        "decisions": order_to_decisions(order),
    }


def _unshare(x):
    if isinstance(x, dict):
        return {k: _unshare(v) for k, v in x.items()}
    if isinstance(x, list):
        return [_unshare(v) for v in x]
    return x


def _load_unshared(text):
    from ruamel.yaml import YAML

    return _unshare(YAML(typ="safe").load(text)["rules"])


def _yaml_safe(specs, t):
    if isinstance(t, tuple):
        if t and t[0] == "sref":
            return _yaml_safe(specs, specs[t[1]])
        return False  # python types / tuples cannot be written as safe YAML
    if isinstance(t, list):
        return all(_yaml_safe(specs, i) for i in t)
    if isinstance(t, dict):
        return all(isinstance(k, str) and _yaml_safe(specs, v) for k, v in t.items())
    return True


# --------------------------------------------------------------------------
# execution
# --------------------------------------------------------------------------


def behaviour(kind, obj, docs):
    """Canonical behaviour of a parsed object on the probe documents."""
    out = []
    for d in docs:
        try:
            if kind == "cond":
                b = canon_fd(obj.filter(d))
            elif kind == "part":
                b = canon_fd(obj.filter(d))
            elif kind in ("pathspec", "partlist"):
                b = snap(obj.get_data(d, return_paths=True))
            elif kind == "rule":
                b = canon_rt(obj.test(d))
            else:
                b = canon_vd(obj.validate(d))
            out.append(("ok", b))
        except Exception as e:
            out.append(("raise", type(e).__name__))
    return tuple(out)


def use_read_only(obj):
    """Put a parse result to the read-only uses a caller has besides validate /
    test / filter / get_data: documentation tree and serialisers.  What they
    return is not judged here; they are called so that a result which ALIASES
    the caller's spec and writes through it shows up as a change of the spec."""
    n = 0
    for name in ("to_tree", "to_json_like", "to_part_specs", "simplify"):
        f = getattr(obj, name, None)
        if callable(f):
            try:
                f()
            except Exception:
                pass
            n += 1
    for name in ("rules", "path", "condition"):
        sub = getattr(obj, name, None)
        for o in sub if isinstance(sub, list) else ([sub] if sub is not None and not callable(sub) else []):
            f = getattr(o, "to_json_like", None)
            if callable(f):
                try:
                    f()
                except Exception:
                    pass
                n += 1
    return n


def try_parse(entry, spec):
    try:
        return ("ok", parse(entry, spec))
    except Exception as e:
        return ("raise", type(e).__name__)


def exec_op(world, op):
    _, si, entry = op
    res = try_parse(entry, world.get("specs", si))
    world.state["last"] = res
    return ("ok", "parsed") if res[0] == "ok" else res


def spec_key_path(path):
    """String dict keys along a diff path: spec vocabulary, stable across seeds."""
    keys = []
    for p in path or ():
        if p.startswith("['") and p.endswith("']"):
            k = p[2:-2]
            keys.append(k.split(".")[0] if "." in k else k)
    tail = (path or ("",))[-1]
    kind = "keys" if "keys" in tail else ("len" if "len" in tail else "value")
    return "/".join(keys[-2:]) + "#" + kind


def on_boundary(eng, c, k, op, out):
    world = eng.world
    st = world.state
    term = world.term
    _, si, entry = op
    kind = term["spec_kinds"][si]
    docs = st["docs"]
    vio = []
    res = st["last"]
    # Reference: ONE fresh copy of the spec structure, parsed twice (the
    # property's own wording: "parsing the same spec structure a second time
    # yields an object equal to the first").  f2 is never used for anything
    # but equality, so it stays exactly as the parser returned it.
    if kind == "yaml":
        # reference for a YAML text with anchors: what the safe loader returns
        # for this text, with every alias expanded into its own copy, parsed
        # through init_rules (loading the text - rather than taking the term -
        # keeps the mapping key order the dumper chose)
        with pristine_state():
            fs = _load_unshared(world.get("specs", si))
            f1 = try_parse("Schema.init_rules", fs)
            f2 = try_parse("Schema.init_rules", fs)
    else:
        with pristine_state():
            fs = World(term).get("specs", si)
            f1 = try_parse(entry, fs)
            f2 = try_parse(entry, fs)
    st["parses"] += 1
    if res[0] != f1[0] or (res[0] == "raise" and res[1] != f1[1]):
        vio.append(
            dict(
                oracle="reparse_differs",
                locus=f"{entry}:{'raise:' + res[1] if res[0] == 'raise' else 'ok-but-fresh-raises:' + f1[1]}",
                detail={"op": op, "shared": repr(res)[:300], "fresh": repr(f1)[:300], "parse_number": st["count"].get((si, entry), 0) + 1},
            )
        )
        return vio
    st["count"][(si, entry)] = st["count"].get((si, entry), 0) + 1
    if res[0] == "raise":
        st["both_raise"] += 1
        return vio
    obj = res[1]

    # --- equality first, on objects nobody has used yet --------------------
    def equal(a, b):
        try:
            return bool(a == b)
        except Exception as e:
            return ("raise", type(e).__name__)

    if f2[0] != "ok" or equal(f1[1], f2[1]) is not True:
        st["eq_unusable"] += 1
        vio.append(dict(oracle="reparse_differs", locus=f"{entry}:second_parse_of_a_fresh_structure_not_equal", detail={"op": op, "second": repr(f2)[:200]}))
        return vio
    same = equal(obj, f2[1])
    if same is not True:
        vio.append(dict(oracle="reparse_differs", locus=f"{entry}:not_equal_to_fresh", detail={"op": op, "eq": repr(same)}))
        return vio
    first = st["first"].get((si, entry))
    if first is not None:
        st["reparses"] += 1
        # the witness of the first parse is an equal object that was never used
        same = equal(first["witness"], obj)
        if same is not True:
            vio.append(dict(oracle="reparse_differs", locus=f"{entry}:not_equal_to_first", detail={"op": op, "eq": repr(same)}))
            return vio

    # --- then behaviour ------------------------------------------------------
    with pristine_state():
        bf = behaviour(kind, f1[1], docs)
    bs = behaviour(kind, obj, docs)
    if bs != bf:
        vio.append(dict(oracle="reparse_differs", locus=f"{entry}:behaviour", detail={"op": op, "shared": repr(bs)[:500], "fresh": repr(bf)[:500]}))
        return vio
    if first is not None and first["behaviour"] != bs:
        vio.append(dict(oracle="reparse_differs", locus=f"{entry}:behaviour_vs_first", detail={"op": op}))
        return vio
    if first is None:
        st["first"][(si, entry)] = {"obj": obj, "behaviour": bs, "witness": f2[1], "snap": None}
    # "leaves the caller's spec structure unchanged" also while the result is put
    # to read-only use (the probes above; to_tree / to_json_like ... here): a
    # result that aliases the spec and writes through it later changes the spec
    # under the caller just the same.  The engine compared the specs right after
    # the parse (before this callback), so what differs now was done by the uses.
    st["read_only_uses"] += use_read_only(obj)
    for label, path in eng.monitor.check():
        vio.append(
            dict(
                oracle="spec_changed_by_use_of_parse_result",
                locus=(locus_hook(eng, label, path, None) or attr_locus(path)).replace("spec_mutated:", ""),
                detail={"op": op, "object": label, "diff": list(path or ())},
            )
        )
    if vio:
        return vio
    # Earlier results must not be altered by LATER PARSES (a Rule that aliases
    # the caller's cast dict is emptied by the next parse).  Their structure is
    # recorded at the end of the step in which they were produced and compared
    # at the end of every later step; nothing but parses (and probes of other
    # results) happens in between.
    for (sj, ej), rec in list(st["first"].items()):
        now = snap(rec["obj"])
        if rec["snap"] is None:
            rec["snap"] = now
        elif now != rec["snap"]:
            path = diff_path(rec["snap"], now)
            vio.append(
                dict(
                    oracle="earlier_result_changed_by_later_parse",
                    locus=f"{ej}->{entry}",
                    detail={"earlier": (sj, ej), "op": op, "diff": list(path or ())},
                )
            )
            return vio
    return vio


def locus_hook(eng, label, path, last_write):
    """Name the *site class* of a spec mutation from the diff (the mutating
    store itself is a builtin-container store and cannot be intercepted)."""
    if not label.startswith("specs["):
        return None
    kind = eng.world.term["spec_kinds"][int(label[6:-1])]
    comps = list(path or ())
    text = " ".join(comps)
    tail = comps[-1] if comps else ""
    if "['cast']" in text or kind == "cast":
        return "spec_mutated:cast_block"
    if kind == "doc" or any(k in text for k in ("['doc']", "['description']", "['examples']")):
        return "spec_mutated:doc_block"
    if "keys" in tail and "\\\\path" in tail:
        return "spec_mutated:escaped_path_key"
    if "keys" in tail:
        return "spec_mutated:part_spec_keys"
    return "spec_mutated:condition_argument"


def run(case):
    term = case["world"]
    world = World(term)
    n = len(term["specs"])
    for i in range(n):
        world.get("specs", i)
    mon = Monitor()
    for i in range(n):
        mon.register(f"specs[{i}]", world.get("specs", i))
    docs = [world.get("docs", i) for i in range(len(term["docs"]))]  # probes only; whether reads leave them alone is C08's statement
    world.state = {"docs": docs, "first": {}, "count": {}, "last": None, "parses": 0, "reparses": 0, "both_raise": 0, "eq_unusable": 0, "read_only_uses": 0}
    eng = Engine(world, case["programs"], exec_op, mon, Scripted(case["decisions"]), mode="op", on_boundary=on_boundary)
    eng.locus_hook = locus_hook
    eng.run()
    st = world.state
    ops = [op for p in case["programs"] for op in p]
    key = digest((term, case["programs"], case["decisions"]))
    shared_refs = _count_srefs(term["specs"])
    by_entry = {}
    for op in ops:
        by_entry[op[2]] = by_entry.get(op[2], 0) + 1
    stats = {
        "runs": 1,
        "ops": len(ops),
        "steps": eng.step,
        "parses_compared_with_fresh": st["parses"],
        "reparses_of_same_structure": st["reparses"],
        "parses_where_both_raise": st["both_raise"],
        "read_only_uses_of_results_with_spec_recheck": st["read_only_uses"],
        "parses_where_equality_unusable": st["eq_unusable"],
        "aliased_substructures": shared_refs,
        "parses_by_entry_point": by_entry,
        "set:histories": {key},
    }
    nontrivial = key if (st["reparses"] > 0 or shared_refs > 0) else None
    return Report(eng.violations, stats, eng.event_digest(), case=case, nontrivial_key=nontrivial)


def _count_srefs(t):
    if isinstance(t, tuple):
        return 1 if t and t[0] == "sref" else 0
    if isinstance(t, list):
        return sum(_count_srefs(i) for i in t)
    if isinstance(t, dict):
        return sum(_count_srefs(v) for v in t.values())
    return 0


def sample(case):
    return {"world": case["world"], "programs": case["programs"], "decisions": case["decisions"]}


def evidence_info():
    return {
        "rule": (
            "one evaluation = one seeded history: 1-3 callers interleaved at operation boundaries parse entries of a pool of 5-15 well-formed spec "
            "structures (condition specs incl. and/or/xor lists, aliases, type names, data-path arguments in scalar/list/mapping position, escaped \\\\path keys; "
            "part specs in long and shorthand forms; part lists; path specs with suffixes; rule specs with cast and every doc shape; rule lists) 2-12 times "
            "through every entry point (incl. from_yaml / from_yaml_file on YAML text with anchors); sub-structures are shared between specs, and inside one spec, through a sharing table (same Python object). distinct = distinct (world, "
            "programs, interleaving) digests; non-trivial = the history parses some structure at least twice or the pool contains an aliased sub-structure."
        ),
        "components": {
            "real": ["all of valida from the working tree", "ruamel.yaml (dump and safe load)", "CPython 3.12"],
            "simulated": ["the order in which callers' parse operations are applied to the shared spec structures"],
            "shim": ["digest monitor on the spec structures only (probe documents are not monitored: that is C08's statement)"],
            "real_io": ["rule lists that are plain YAML data are also dumped with ruamel (shared sub-structures become anchors / aliases) and parsed through Schema.from_yaml and Schema.from_yaml_file (a real temporary file - valida's only I/O seam); the reference is the loaded text with every alias expanded"],
            "stubbed": [],
        },
        "assumptions": [
            "equality is evaluated on objects nobody has used yet: the shared parse result against an unused second parse of ONE fresh copy of the structure (whose two parses must be equal: the property's own wording), and the k-th parse against an unused witness of the first; what using an object does to it is C08's statement",
            "reference computations run with valida's module-level mutable state put back to import time (isolation.pristine_state)",
            "behavioural equality is checked on the world's 2-3 probe documents only",
            "'leaves the caller's spec unchanged' is also checked after the parse result has been put to read-only use (validate / test / filter / get_data on the probe documents, to_tree, to_json_like, to_part_specs, simplify): a change of the spec made through an alias kept by the result is reported as spec_changed_by_use_of_parse_result",
            "operation-boundary histories only",
        ],
    }
