"""C08 - validation is read-only: inputs and schema unchanged, results
repeatable, in any interleaving / thread schedule (DESIGN.md 5.1).

N caller threads issue read operations (filter / get / part_filter / test /
validate) on ONE shared world.  The scheduler pre-empts at source-line (or
opcode) granularity; faults: abort at a pre-emption point, MemoryError at the
deepcopy seam.  Monitors: digests of every pre-existing shared object + the
attribute-write tracer.  History oracle: every completed operation's outcome
equals the same operation on freshly built objects, run alone.
"""
from .. import gen as G
from ..common import Report, stream, digest, big
from ..engine import (
    Engine,
    Monitor,
    Scripted,
    RandomStrategy,
    PCT,
    Stratified,
    AfterWrite,
    Targeted,
    PingPong,
    PINGPONG_TARGETS,
    PROBE_FUNCS,
    count_steps,
    install_copy_shim,
    OpTimeout,
)
from ..ops import exec_read_op
from ..edits import gen_edit, apply_edit
from ..isolation import pristine_state, global_token
from ..terms import World, KINDS, BuildError

PID = "C08"

FIELDS = {
    "vd": ["tag", "is_valid", "num_failures", "num_rules_tested", "frac_rules_tested", "rule_tests", "failures_string", "cast_data"],
    "rt": ["tag", "tested", "is_valid", "num_failures", "failures", "failures_string"],
    "fd": ["tag", "result", "data", "keys", "failure_indices", "failures"],
}


def first_diff_field(a, b):
    if a[0] != b[0]:
        return f"{a[0]}->{b[0]}" + (f":{b[1]}" if b[0] == "raise" else "")
    if a[0] == "raise":
        return f"raise:{a[1]}->{b[1]}"
    ca, cb = a[1], b[1]
    if isinstance(ca, tuple) and isinstance(cb, tuple) and ca and cb and ca[0] == cb[0] and ca[0] in FIELDS:
        names = FIELDS[ca[0]]
        for i, (x, y) in enumerate(zip(ca, cb)):
            if x != y:
                return names[i] if i < len(names) else f"field{i}"
    return "value"


# --------------------------------------------------------------------------
# generation
# --------------------------------------------------------------------------


def generate(seed):
    r = stream(seed, "world")
    knobs = G.default_knobs(r)
    g = G.Gen(r, knobs)
    d0 = g.top_doc()
    if knobs["casts"] and isinstance(d0, dict) and r.random() < 0.6:
        # make sure there is something a nested cast can really act on
        d0[r.choice(["cfg", "a", "opts"])] = {"flag": r.choice(["true", "False", "yes"]), "n": r.choice(["3", "12", "x"]), "sub": {"m": r.choice(["7", "true"])}}
    docs = [d0] + [g.variant(d0) for _ in range(r.randint(1, 3))]
    ctx = g.context(docs)

    conds = []
    for _ in range(r.randint(1, 4)):
        c = r.random()
        if c < 0.6:
            conds.append(g.value_tree(ctx))
        elif c < 0.8:
            conds.append(g.tree(lambda: g.key_leaf(ctx)))
        else:
            conds.append(g.tree(lambda: g.index_leaf(3)))
    paths = [g.path_from_docs(ctx) for _ in range(r.randint(1, 4))]
    if knobs["bound_paths"]:
        p = g.path_from_docs(ctx, allow_mods=False)
        if p[0] == "path":
            paths.append(p[:4] + (r.randrange(len(docs)),))
    # numeric twins: the same path with an int part spelled as the == float / bool
    # (1, 1.0 and True are different parts: key-or-index, key only, key-or-index)
    if r.random() < 0.3:
        cands = [p for p in paths if p[0] == "path" and any(x[0] == "prim" and isinstance(x[1], int) and not isinstance(x[1], bool) for x in p[1])]
        if cands:
            p = r.choice(cands)
            idx = [i for i, x in enumerate(p[1]) if x[0] == "prim" and isinstance(x[1], int) and not isinstance(x[1], bool)]
            i = r.choice(idx)
            k = p[1][i][1]
            twin = float(k) if (r.random() < 0.8 or k not in (0, 1)) else bool(k)
            tp = ("path", p[1][:i] + (("prim", twin),) + p[1][i + 1 :], p[2], p[3])
            paths.insert(r.randrange(len(paths) + 1), tp)
    parts = []
    for _ in range(r.randint(1, 3)):
        d = r.choice(docs)
        nodes = [n for n in G.iter_nodes(d) if isinstance(n[1], (dict, list)) and n[1]]
        _p, cont = r.choice(nodes)
        k = r.choice(list(cont.keys())) if isinstance(cont, dict) else r.randrange(len(cont))
        if r.random() < 0.25:
            parts.append(("mol", (("key", ("v", k)), ("index", ("v", k if isinstance(k, int) else 0)))))
        else:
            parts.append(g.general_part(ctx, cont, k))

    # a part may hold a free-standing condition object that rules / callers use too
    for i, pt in enumerate(parts):
        if pt[0] in ("map", "list", "mol") and r.random() < 0.25:
            kind_ok = [ci for ci, ct in enumerate(conds) if _kinds(ct) <= {"value"} and ct != ("null",)]
            if kind_ok and not any(k == "condition" for k, _v in pt[1]):
                parts[i] = (pt[0], pt[1] + (("condition", ("cref", r.choice(kind_ok))),))

    rules = []
    for _ in range(r.randint(1, 6)):
        t = g.rule(ctx, mods=True)
        # share condition / path objects between rules and with free-standing ones
        if r.random() < 0.25 and conds and t[3] is None:
            ci = r.randrange(len(conds))
            t = ("rule", t[1], ("cref", ci), t[3], t[4])
        if r.random() < 0.2 and t[3] is None:
            pi = r.randrange(len(paths))
            if len(paths[pi]) < 5 or paths[pi][0] != "path" or paths[pi][4] is None:
                t = ("rule", ("pref", pi), t[2], t[3], t[4])
        rules.append(t)
    schemas = []
    for _ in range(r.randint(1, 3)):
        n = r.randint(0 if r.random() < 0.05 else 1, len(rules))
        schemas.append(("schema", tuple(r.sample(range(len(rules)), n))))
    rlists = []
    if r.random() < 0.2 and rules:
        # one list object handed to two Schema constructors
        rlists.append(tuple(r.sample(range(len(rules)), r.randint(1, len(rules)))))
        schemas.append(("schema_l", 0))
        schemas.append(("schema_l", 0))
    datas = [r.randrange(len(docs)) for _ in range(r.randint(0, 2))]

    world = {
        "docs": docs,
        "datas": datas,
        "conds": conds,
        "parts": parts,
        "paths": paths,
        "rules": rules,
        "rlists": rlists,
        "schemas": schemas,
    }

    bigrun = big(r)
    n_callers = r.choice([1, 2, 2, 2, 3, 3, 4]) + (r.randint(1, 2) if bigrun else 0)
    kinds = ["validate"] * 4 + ["test"] * 3 + ["get"] * 2 + ["filter"] * 2 + ["part_filter"]
    swarm_kinds = r.sample(sorted(set(kinds)), r.randint(2, 5))
    kinds = [k for k in kinds if k in swarm_kinds]
    programs = []
    for _c in range(n_callers):
        prog = []
        for _ in range(r.randint(1, 6) + (r.randint(1, 4) if bigrun else 0)):
            if prog and r.random() < 0.25:
                prog.append(prog[-1])  # repeat the same call
                continue
            prog.append(_gen_op(r, world, r.choice(kinds)))
        programs.append(prog)

    # scheduling knobs
    sk = {}
    sk["mode"] = "pre" if r.random() < 0.8 else "op"
    sk["granularity"] = "opcode" if r.random() < 0.2 else "line"
    sk["strategy"] = r.choice(["random", "random", "pct", "pct", "stratified", "after-write", "after-write", "targeted", "targeted", "pingpong", "pingpong"])
    sk["target"] = r.choice(sorted(PROBE_FUNCS))
    sk["pp_target"] = r.choice(PINGPONG_TARGETS)
    sk["p"] = r.choice([0.002, 0.01, 0.05, 0.3])
    sk["d"] = r.choice([1, 2, 3])
    sk["digest_every"] = r.choice([1, 7, 31, 127])
    sk["light_every_step"] = r.random() < 0.3
    sk["fault_run"] = r.random() < 0.3
    sk["fault_kinds"] = r.choice([("abort",), ("alloc_fail",), ("abort", "alloc_fail")])
    if sk["mode"] == "op" and r.random() < 0.6:
        # callers also change their own documents between operations (only in
        # runs without pre-emption: editing a document that another thread is
        # reading would be the caller's own race)
        for prog in programs:
            i = 0
            while i < len(prog):
                if r.random() < 0.25:
                    di = r.randrange(len(docs))
                    prog.insert(i, ("edit", di, gen_edit(r, g, docs[di])))
                    i += 1
                i += 1
    return {
        "property": PID,
        "seed": seed,
        "knobs": knobs,
        "sched": sk,
        "world": world,
        "programs": programs,
    }


def _gen_op(r, world, kind):
    nd = len(world["docs"])
    di = r.randrange(nd)
    hows = ["raw", "raw", "data"]
    if world["datas"]:
        hows.append("shared_data")
    how = r.choice(hows)
    if how == "shared_data":
        di = r.randrange(len(world["datas"]))
    if kind == "validate":
        return ("validate", r.randrange(len(world["schemas"])), di, how)
    if kind == "test":
        return ("test", r.randrange(len(world["rules"])), di, how)
    if kind == "get":
        how2 = r.choice(["raw", "data", "data.get"] + (["shared_data", "shared_data.get"] if world["datas"] else []))
        pi_ = r.randrange(len(world["paths"]))
        pt_ = world["paths"][pi_]
        if pt_[0] == "path" and pt_[2] is None and pt_[3] is None and (len(pt_) < 5 or pt_[4] is None) and all(x[0] == "prim" for x in pt_[1]) and r.random() < 0.5:
            return ("get", pi_, r.randrange(nd), r.random() < 0.5, "data.get_parts")
        if how2.startswith("shared_data"):
            di = r.randrange(len(world["datas"]))
        else:
            di = r.randrange(nd)
        return ("get", r.randrange(len(world["paths"])), di, r.random() < 0.5, how2)
    if kind == "filter":
        how2 = r.choice(["raw", "data.filter", "test_all"] + (["shared_data"] if world["datas"] else []))
        di = r.randrange(len(world["datas"])) if how2 == "shared_data" else r.randrange(nd)
        return ("filter", r.randrange(len(world["conds"])), di, how2)
    return ("part_filter", r.randrange(len(world["parts"])), di, how)


# --------------------------------------------------------------------------
# what an operation touches (for the non-triviality measure)
# --------------------------------------------------------------------------


def _kinds(t):
    from ..terms import COND_KIND

    if t[0] in ("and", "or", "xor"):
        return _kinds(t[1]) | _kinds(t[2])
    if t[0] == "leaf":
        return {COND_KIND[t[1]]}
    return set()


def _schema_rule_refs(term, si):
    t = term["schemas"][si]
    if t[0] == "schema_l":
        return term["rlists"][t[1]]
    return t[1]


def _refs(term, t, acc):
    if isinstance(t, tuple):
        if t and t[0] == "cref":
            if ("conds", t[1]) not in acc:
                acc.add(("conds", t[1]))
                _refs(term, term["conds"][t[1]], acc)
            return
        if t and t[0] == "pref":
            if ("paths", t[1]) not in acc:
                acc.add(("paths", t[1]))
                _refs(term, term["paths"][t[1]], acc)
            return
        for i in t:
            _refs(term, i, acc)
    elif isinstance(t, list):
        for i in t:
            _refs(term, i, acc)


def touches(term, op):
    acc = set()
    kind = op[0]
    if kind == "edit":
        return {("docs", op[1])}
    how = op[-1]
    if isinstance(how, str) and how.startswith("shared_data"):
        acc.add(("datas", op[2]))
        acc.add(("docs", term["datas"][op[2]]))
    else:
        acc.add(("docs", op[2]))
    if kind == "validate":
        acc.add(("schemas", op[1]))
        for ri in _schema_rule_refs(term, op[1]):
            acc.add(("rules", ri))
            _refs(term, term["rules"][ri], acc)
    elif kind == "test":
        acc.add(("rules", op[1]))
        _refs(term, term["rules"][op[1]], acc)
    elif kind == "get":
        acc.add(("paths", op[1]))
        _refs(term, term["paths"][op[1]], acc)
    elif kind == "filter":
        acc.add(("conds", op[1]))
        _refs(term, term["conds"][op[1]], acc)
    elif kind == "part_filter":
        acc.add(("parts", op[1]))
        _refs(term, term["parts"][op[1]], acc)
    return acc


# --------------------------------------------------------------------------
# run
# --------------------------------------------------------------------------


LIGHT_WINDOW = 1500


def _light_window(case, K):
    """The per-point container fingerprint costs ~0.2 ms, so it is taken at every
    point of a seeded window of LIGHT_WINDOW consecutive steps only."""
    if K <= LIGHT_WINDOW:
        return None
    r = stream(case["seed"], "light")
    a = r.randrange(0, K - LIGHT_WINDOW)
    return (a, a + LIGHT_WINDOW)


def _register_world(mon, world):
    for kind in KINDS:
        for i in range(len(world.term.get(kind, ()))):
            mon.register(f"{kind}[{i}]", world.get(kind, i))


def exec_op(world, op):
    if op[0] == "edit":
        eng = getattr(world, "engine", None)
        if eng is not None:
            eng.check_digests("before a caller-side edit")  # nothing pending may be absorbed by the new baseline
        apply_edit(world.get("docs", op[1]), op[2])
        world.edit_log.append((op[1], op[2]))
        mon = getattr(world, "monitor", None)
        if mon is not None:
            mon.rebaseline()
        return ("ok", "edited")
    return exec_read_op(world, op)


def fresh_outcome(term, op, edit_log, gran="line", count=False, funcs=None):
    """The same operation on freshly built objects, alone.  Objects are built
    first (Data wrappers included), then the caller-side edits made so far are
    applied to the fresh documents, then the operation runs."""
    with pristine_state():
        fresh = World(term)
        for kind, idx in sorted(touches(term, op)):
            fresh.get(kind, idx)
        for di, e in edit_log:
            if fresh.has("docs", di):
                apply_edit(fresh.get("docs", di), e)
        if count:
            return count_steps(lambda: exec_read_op(fresh, op), gran, cap=300_000, funcs=funcs)
        return exec_read_op(fresh, op), 0


def run(case):
    term = case["world"]
    programs = case["programs"]
    sk = case["sched"]
    shared = World(term).build_all()
    shared.edit_log = []
    has_edits = any(op[0] == "edit" for p in programs for op in p)
    if has_edits and sk["mode"] != "op":
        raise BuildError("case", RuntimeError("document edits are only allowed in operation-boundary runs"))

    # reference: the same operation on freshly built objects, alone (also
    # calibrates K, the step count, for the strategies)
    shim = install_copy_shim()
    ref = {}
    solo = {}
    op_funcs = {}  # valida functions each distinct operation executes (from calibration)
    K = 0
    gran = sk["granularity"] if sk["mode"] == "pre" else "line"
    for c, prog in enumerate(programs):
        for k, op in enumerate(prog):
            if op[0] == "edit" or has_edits:
                solo[(c, k)] = 0
                continue
            if op not in ref:
                try:
                    fset = set()
                    out, n = fresh_outcome(term, op, (), gran, count=True, funcs=fset)
                    op_funcs[op] = fset
                except OpTimeout:
                    # a single operation on fresh objects does not terminate: not a
                    # history / schedule question; the world is discarded (counted)
                    raise BuildError(f"op {op!r}", RuntimeError("does not terminate on fresh objects"))
                ref[op] = (out, n)
            solo[(c, k)] = ref[op][1]
            K += ref[op][1]

    mon = Monitor()
    _register_world(mon, shared)
    shared.monitor = mon
    shared.kept = []  # result objects handed to callers, re-read at the end
    live = {"compared": 0}

    def on_boundary(eng, c, k, op, out):
        # runs with caller-side edits: the reference depends on the edits made
        # so far, so it is computed (and compared) at the operation boundary
        if op[0] == "edit" or out == ("aborted",):
            return []
        if (c, k) in {(f[2], f[4]) for f in eng.faults_fired if f[0] == "alloc_fail"} and out == ("raise", "MemoryError"):
            return []
        eng.suspend_faults = True
        try:
            want, _n = fresh_outcome(term, op, list(shared.edit_log))
        finally:
            eng.suspend_faults = False
        live["compared"] += 1
        if out != want:
            return [
                dict(
                    oracle="outcome_differs_from_fresh",
                    locus=f"{op[0]}:{first_diff_field(want, out)}",
                    detail={"caller": c, "op_index": k, "op": op, "edits_so_far": len(shared.edit_log), "fresh": _short(want), "shared": _short(out)},
                )
            ]
        return []

    scripted = "decisions" in case
    n = len(programs)
    if scripted:
        strat = Scripted(case["decisions"])
        faults = case.get("faults", [])
    else:
        rs = stream(case["seed"], "sched")
        rf = stream(case["seed"], "fault")
        name = sk["strategy"]
        if sk["mode"] == "op":
            strat = RandomStrategy(rs, 0.5)
        elif name == "random":
            strat = RandomStrategy(rs, sk["p"])
        elif name == "pct":
            strat = PCT(rs, n, sk["d"], K + sum(len(p) for p in programs))
        elif name == "stratified":
            strat = Stratified(rs, solo)
        elif name in ("targeted", "pingpong"):
            # half of these runs aim at a function that operations of two different
            # callers both execute in THIS run (known from calibration)
            per_caller = [set().union(*[op_funcs.get(op, set()) for op in p]) if p else set() for p in programs]
            common = set()
            for i in range(n):
                for j in range(i + 1, n):
                    common |= per_caller[i] & per_caller[j]
            common = sorted(f for f in common if not f.startswith("<"))
            if name == "targeted":
                tgt = rs.choice(common) if common and rs.random() < 0.5 else sk.get("target", "set_datum")
                strat = Targeted(rs, tgt)
            else:
                tgt = rs.choice(common) if common and rs.random() < 0.5 else sk.get("pp_target", "Rule.test")
                strat = PingPong(rs, tgt)
        else:
            strat = AfterWrite(rs, sk["p"] / 4)
        faults = []
        if sk["fault_run"]:
            if "abort" in sk["fault_kinds"] and sk["mode"] == "pre" and K > 0:
                faults.append(("abort", rf.randrange(1, K + 1)))
            if "alloc_fail" in sk["fault_kinds"]:
                n_copy_ops = sum(1 for p in programs for op in p if op[0] in ("validate", "test"))
                if n_copy_ops:
                    faults.append(("alloc_fail", rf.randrange(1, n_copy_ops + 1)))

    # bound the number of digest checks per run
    digest_every = max(sk["digest_every"], K // 150)
    eng = Engine(
        shared,
        programs,
        exec_op,
        mon,
        strat,
        mode=sk["mode"],
        on_boundary=on_boundary if has_edits else None,
        granularity=sk["granularity"],
        faults=faults,
        digest_every=digest_every,
        max_steps=60 * K + 50_000,
        light_every_step=bool(sk.get("light_every_step")) and sk["mode"] == "pre",
        light_window=_light_window(case, K),
        global_probe=global_token if (sk["mode"] == "pre" and sk["strategy"] == "after-write" and not scripted) else None,
    )
    shared.engine = eng
    eng.run()

    # history oracle
    alloc_hit = {(f[2], f[4]) for f in eng.faults_fired if f[0] == "alloc_fail"}
    compared = live["compared"]
    aborted = 0
    for (c, k), out in sorted(eng.outcomes.items()):
        op = programs[c][k]
        if has_edits:
            break
        want = ref[op][0]
        if out == ("aborted",):
            aborted += 1
            continue
        if (c, k) in alloc_hit and out == ("raise", "MemoryError"):
            continue
        compared += 1
        if out != want:
            eng.add_violation(
                "outcome_differs_from_fresh",
                f"{op[0]}:{first_diff_field(want, out)}",
                {"caller": c, "op_index": k, "op": op, "fresh": _short(want), "shared": _short(out)},
            )
    # epilogue: every distinct operation once more, sequentially, on the shared world
    if not eng.violations:
        distinct = sorted({op for p in programs for op in p if op[0] != "edit"}, key=repr)
        for op in distinct:
            out = exec_read_op(shared, op)
            want = fresh_outcome(term, op, list(shared.edit_log))[0] if has_edits else ref[op][0]
            compared += 1
            if out != want:
                eng.add_violation(
                    "outcome_differs_from_fresh",
                    f"{op[0]}:{first_diff_field(want, out)}",
                    {"where": "epilogue (after all callers finished)", "op": op, "fresh": _short(want), "shared": _short(out)},
                )
                break
        eng.check_digests("after epilogue")
    # results handed out earlier must still read the same now
    rechecked = 0
    if not eng.violations and not has_edits:  # (results alias the caller's own nested containers)
        for obj, fn, c in shared.kept:
            try:
                now = fn(obj)
            except Exception as e:
                now = ("raise", type(e).__name__)
            rechecked += 1
            if now != c:
                kind = c[0] if isinstance(c, tuple) and c and isinstance(c[0], str) else "value"
                eng.add_violation(
                    "earlier_result_changed_later",
                    f"{kind}:{first_diff_field(('ok', c), ('ok', now)) if not (isinstance(now, tuple) and now and now[0] == 'raise') else 'raise:' + now[1]}",
                    {"result_kind": kind, "at_return": _short(c), "at_end_of_run": _short(now)},
                )
                break

    divergent = 0
    if sk["mode"] == "pre" and not has_edits:
        for (c, k), n_solo in solo.items():
            out = eng.outcomes.get((c, k))
            if out is None or out == ("aborted",) or out[0] == "raise":
                continue
            if eng.op_steps.get((c, k)) is not None and eng.op_steps[(c, k)] != n_solo:
                divergent += 1
    run_case = dict(case)
    run_case["decisions"] = list(eng.decisions)
    run_case["faults"] = [list(f) for f in faults]

    # non-triviality: >= 2 callers touch a common shared object and at least
    # one switch happened in the middle of an operation
    tsets = [set().union(*[touches(term, op) for op in p]) if p else set() for p in programs]
    common = any(tsets[i] & tsets[j] for i in range(n) for j in range(i + 1, n))
    nontrivial = None
    if common and eng.mid_op_switches > 0:
        nontrivial = (digest(term), eng.schedule_digest())

    ff = {}
    for f in eng.faults_fired:
        ff[f[0]] = ff.get(f[0], 0) + 1
    ff["preempt"] = eng.mid_op_switches
    stats = {
        "runs": 1,
        "runs_preemptive": 1 if sk["mode"] == "pre" else 0,
        "runs_opcode_granularity": 1 if sk["mode"] == "pre" and sk["granularity"] == "opcode" else 0,
        "runs_with_fault_config": 1 if faults else 0,
        "steps": eng.step,
        "ops": sum(len(p) for p in programs),
        "ops_compared_with_fresh": compared,
        "results_reread_at_end": rechecked,
        "digest_checks": eng.digest_checks,
        "container_fingerprint_checks": eng.light_checks,
        "ops_aborted": aborted,
        "caller_side_document_edits": len(shared.edit_log),
        "lock_stall_recoveries": eng.lock_stalls,
        "diagnostic_ops_with_step_count_differing_from_solo": divergent,
        "context_switches": eng.switches,
        "mid_operation_switches": eng.mid_op_switches,
        "traced_writes_to_shared_objects": len(mon.writes),
        "faults_fired": ff,
        "probes": dict(eng.probes),
        "ops_by_kind": _by_kind(programs),
        "strategy_runs": {strat.name if sk["mode"] == "pre" else "op-boundary": 1},
        "set:schedules": {eng.schedule_digest()},
        "set:site_pairs": {digest(p, 12) for p in eng.site_pairs},
        "set:worlds": {digest(term)},
    }
    return Report(eng.violations, stats, eng.event_digest(), case=run_case, nontrivial_key=nontrivial)


def _short(x, n=600):
    s = repr(x)
    return s if len(s) <= n else s[:n] + "..."


def _by_kind(programs):
    d = {}
    for p in programs:
        for op in p:
            d[op[0]] = d.get(op[0], 0) + 1
    return d


def sample(case):
    return {"world": case["world"], "programs": case["programs"], "sched": case["sched"], "decisions": case.get("decisions", [])[:50], "faults": case.get("faults", [])}


def evidence_info():
    return {
        "rule": (
            "one evaluation = one simulated run: 1-4 caller threads x 1-6 read operations (filter/get/part_filter/test/validate) on one "
            "shared world (schemas sharing Rule objects sharing condition/path objects, 2-4 variant documents, shared Data wrappers); 80% of runs "
            "pre-emptive at source-line granularity (20% of those at opcode granularity) under random/PCT/stratified/after-write/targeted strategies, 20% at "
            "operation boundaries (60% of those with caller-side in-place edits of the documents between operations); <=30% of runs carry an abort and/or alloc_fail fault. distinct = distinct (world digest, schedule digest); "
            "non-trivial = at least two callers touch a common shared object AND at least one context switch happened in the middle of an operation."
        ),
        "components": {
            "real": ["all of valida from the working tree", "CPython 3.12 threads (parked on semaphores; exactly one holds the baton)", "copy.deepcopy (through the shim)"],
            "simulated": ["which caller runs and at which valida source line / opcode it is pre-empted (seeded strategy or recorded decisions)", "abort (asynchronous exception at a pre-emption point)", "allocation failure at the document-copy seam"],
            "shim": ["`copy` module global of valida.rules and valida.schema (passes through except when failing on purpose)", "harness-installed __setattr__ write tracer on valida classes"],
            "stubbed": [],
        },
        "assumptions": [
            "fresh-object reference runs use the same valida code, so only dependence on history, sharing and schedule is detected - not what a condition means",
            "abort is sound for a property over schedules because the state left behind is the state an observer scheduled at that point would see; assumes no `except BaseException` handler in valida writes to shared objects (there is none)",
            "mutations of objects not reachable from the arguments, and container stores that write back an equal value, are invisible to the monitors (the history oracle still sees their effect on outcomes)",
            "reference computations run with valida's module-level mutable state put back to import time (isolation.pristine_state); that state is also reset before every run",
        ],
    }
