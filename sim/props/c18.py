"""C18 - add_schema adds re-rooted rules and leaves the added schema intact
(DESIGN.md 5.4).

History = an op-boundary interleaving of callers issuing `add_schema` (same T
under different roots, into different S, twice into one S, chains) and
`validate` over shared schemas.  After every step every schema in the world is
compared, structurally and behaviourally, with an executable reference model:
a schema is a list of rule terms; add = append re-rooted + stable sort by
path length; the source schema is unchanged.
"""
import copy

from valida.casting import CAST_LOOKUP
from valida.datapath import DataPath, ListValue, MapValue
from valida.rules import Rule
from valida.schema import Schema

from .. import gen as G
from ..common import Report, stream, digest, order_to_decisions, big
from ..isolation import pristine_state
from ..engine import Engine, Monitor, Scripted
from ..ops import canon_vd
from ..terms import World, TYPES, snap, diff_path, attr_locus, BuildError

PID = "C18"


# --------------------------------------------------------------------------
# generation
# --------------------------------------------------------------------------


def generate(seed):
    r = stream(seed, "world")
    knobs = G.default_knobs(r, from_str=(r.random() < 0.3), bound_paths=False)
    knobs["rule_path_modifiers"] = r.random() < 0.35
    knobs["path_args"] = r.random() < 0.25
    g = G.Gen(r, knobs)
    # documents: something lies at some of the roots
    d0 = g.top_doc()
    docs = [d0] + [g.variant(d0) for _ in range(r.randint(1, 3))]
    # roots: container nodes of the documents (concrete, or bare MapValue()/ListValue() parts)
    ctx_roots = g.context(docs)
    roots = []
    for _ in range(r.randint(1, 4)):
        c = r.random()
        d = r.choice(docs)
        nodes = [n for n in G.iter_nodes(d) if isinstance(n[1], (dict, list)) and n[1]]
        node_path, node = r.choice(nodes)
        if c < 0.1:
            roots.append(("path", (), None, None))
            continue
        parts = []
        cur = d
        for k in node_path:
            x = r.random()
            if x < 0.25:
                parts.append(("map", ()) if isinstance(cur, dict) else ("list", ()))
            elif x < 0.35:
                # a root part with conditions of its own (selects some siblings)
                parts.append(g.general_part(ctx_roots, cur, k))
            else:
                parts.append(g.concrete_part(k))
            cur = cur[k]
        roots.append(("path", tuple(parts), None, None))  # always a DataPath, as the signature says
    # rules of T-like schemas are written relative to what lies at a root
    sub_docs = []
    for rt in roots:
        for d in docs:
            for node in _nodes_at(rt, d):
                if isinstance(node, (dict, list)) and node:
                    sub_docs.append(node)
    ctx_all = g.context(docs)
    ctx_sub = g.context(sub_docs) if sub_docs else ctx_all

    rules = []
    schemas = []
    n_s = r.randint(2, 4)
    n_t = r.randint(1, 3)
    for si in range(n_s + n_t):
        is_t = si >= n_s
        ctx = ctx_sub if is_t and r.random() < 0.8 else ctx_all
        refs = []
        for _ in range(r.randint(1 if is_t else 0, 3)):
            t = g.rule(ctx, mods=knobs["rule_path_modifiers"])
            if t[1][0] == "path" and len(t[1]) > 4:
                t = ("rule", t[1][:4], t[2], t[3], t[4])
            rules.append(t)
            refs.append(len(rules) - 1)
        if rules and r.random() < 0.1:
            refs.append(r.randrange(len(rules)))  # a Rule object shared with another schema
        schemas.append(("schema", tuple(refs)))
    # ordinary usage: one list object handed to two Schema constructors, or a
    # schema built from another schema's `.rules`
    rlists = []
    if r.random() < 0.3:
        i = r.randrange(n_s)
        rlists.append(tuple(schemas[i][1]))
        schemas[i] = ("schema_l", 0)
        schemas.append(("schema_l", 0))
    if r.random() < 0.2:
        schemas.append(("schema_of", r.randrange(len(schemas))))

    n_callers = r.randint(1, 3)
    programs = [[] for _ in range(n_callers)]
    order = []
    ns = len(schemas)
    for _ in range(r.randint(2, 8) + (r.randint(2, 8) if big(r) else 0)):
        c = r.randrange(n_callers)
        if r.random() < 0.65:
            # bias: T-like schemas as source, S-like as receiver, but chains too
            src = r.randrange(n_s, ns) if r.random() < 0.75 else r.randrange(ns)
            dst = r.randrange(n_s) if r.random() < 0.8 else r.randrange(ns)
            if src == dst:
                dst = (dst + 1) % ns
            op = ("add", dst, src, r.randrange(len(roots)))
        else:
            op = ("validate", r.randrange(ns), r.randrange(len(docs)))
        programs[c].append(op)
        order.append(c)
    # Fault-like members of the swarm (own PRNG stream, so the fault-free worlds
    # are exactly what they were): add_schema calls that valida REJECTS because
    # the root is not a path (None, a tuple, a list, a bare part, a dict).  The
    # caller catches the exception and carries on with the same schemas.
    rf = stream(seed, "rejected_adds")
    if rf.random() < 0.3:
        for _ in range(rf.randint(1, 2)):
            pos = rf.randint(0, len(order))
            c = rf.randrange(n_callers)
            src = rf.randrange(n_s, ns) if rf.random() < 0.75 else rf.randrange(ns)
            dst = rf.randrange(n_s) if rf.random() < 0.8 else rf.randrange(ns)
            if src == dst:
                dst = (dst + 1) % ns
            programs[c].insert(order[:pos].count(c), ("bad_add", dst, src, rf.randrange(len(BAD_ROOTS))))
            order.insert(pos, c)
    return {
        "property": PID,
        "seed": seed,
        "knobs": knobs,
        "world": {"docs": docs, "rules": rules, "rlists": rlists, "schemas": schemas, "roots": roots},
        "programs": programs,
        "decisions": order_to_decisions(order),
    }


def _nodes_at(root_term, doc):
    """Nodes of a native document under a root term that only has prim / bare
    map / bare list parts (generation helper, not an oracle)."""
    if root_term[0] == "str":
        parts = (("prim", root_term[1]),)
    else:
        parts = root_term[1]
    cur = [doc]
    for p in parts:
        nxt = []
        for n in cur:
            if p[0] == "prim":
                try:
                    if isinstance(n, (dict, list)):
                        nxt.append(n[p[1]])
                except (KeyError, IndexError, TypeError):
                    pass
            elif p[0] == "map" and isinstance(n, dict) and not p[1]:
                nxt.extend(n.values())
            elif p[0] == "list" and isinstance(n, list) and not p[1]:
                nxt.extend(n)
            elif p[0] == "map" and isinstance(n, dict):
                # Key.equal_to(None) style concrete part
                try:
                    k = p[1][0][1][3][0][1]
                    nxt.append(n[k])
                except Exception:
                    pass
        cur = nxt
    return cur


# --------------------------------------------------------------------------
# reference model
# --------------------------------------------------------------------------


def split_path(t):
    """path term -> (base term without modifiers, dmod, mmod)"""
    if t[0] == "path":
        return ("path", t[1], None, None), t[2], t[3]
    if t[0] == "from_str":
        return ("from_str", t[1], t[2], None, None), t[3], t[4]
    raise ValueError(t)


class ModelRule:
    __slots__ = ("bases", "dmod", "mmod", "cond", "cast", "doc", "rid", "origin")

    def __init__(self, bases, dmod, mmod, cond, cast, doc, rid, origin):
        self.bases = bases  # tuple of path base terms, concatenated
        self.dmod = dmod
        self.mmod = mmod
        self.cond = cond
        self.cast = cast
        self.doc = doc
        self.rid = rid
        self.origin = origin  # index of the world rule it descends from

    def build_path(self, w):
        parts = []
        for b in self.bases:
            parts.extend(w.path(b).parts)
        p = DataPath(*parts)
        if self.dmod is not None:
            p = getattr(p, self.dmod)()
        if self.mmod is not None:
            p = getattr(p, self.mmod)()
        return p

    def build(self, w):
        kw = {}
        if self.cast is not None:
            kw["cast"] = {TYPES[a]: CAST_LOOKUP[(TYPES[a], TYPES[b])] for a, b in self.cast}
        if self.doc is not None:
            kw["doc"] = copy.deepcopy(self.doc)
        return Rule(path=self.build_path(w), condition=w.cond(self.cond), **kw)


class Model:
    def __init__(self, term):
        self.term = term
        self.w = World(term)  # only used to build parts/paths/conditions from terms
        self.next_rid = len(term["rules"])
        base = []
        for i, t in enumerate(term["rules"]):
            _, path, cond, cast, doc = t
            b, dm, mm = split_path(path)
            base.append(ModelRule((b,), dm, mm, cond, cast, doc, i, i))
        self.schemas = []
        for t in term["schemas"]:
            if t[0] == "schema_l":
                refs = term["rlists"][t[1]]
            elif t[0] == "schema_of":
                # same rules as the schema it was built from (at build time)
                self.schemas.append(list(self.schemas[t[1]]))
                continue
            else:
                refs = t[1]
            rules = [base[i] for i in refs]
            self.schemas.append(self._sorted(rules))

    def _len(self, mr):
        return len(mr.build_path(self.w))

    def _sorted(self, rules):
        return sorted(rules, key=self._len)  # Python's sort is stable

    def root_base(self, rt):
        if rt[0] == "str":
            return ("path", (("prim", rt[1]),), None, None)
        return ("path", rt[1], None, None)

    def add(self, dst, src, root_term):
        rb = self.root_base(root_term)
        new = []
        for mr in self.schemas[src]:
            new.append(ModelRule((rb,) + mr.bases, mr.dmod, mr.mmod, mr.cond, mr.cast, mr.doc, self.next_rid, mr.origin))
            self.next_rid += 1
        self.schemas[dst] = self._sorted(list(self.schemas[dst]) + new)

    def fresh_schema(self, i):
        with pristine_state():
            return Schema(rules=[mr.build(self.w) for mr in self.schemas[i]])


# --------------------------------------------------------------------------
# execution
# --------------------------------------------------------------------------


def build_root(world, rt):
    if rt[0] == "str":
        return rt[1]
    try:
        return world.path(rt)
    except BuildError:
        raise
    except Exception as e:  # the world cannot be built: discarded, not a verdict of this check
        raise BuildError("root", e)


# roots that are not paths: valida refuses them (TypeError from `/`) - built anew for every call
BAD_ROOTS = [
    ("None", lambda: None),
    ("tuple", lambda: ("a",)),
    ("list", lambda: ["a"]),
    ("MapValue()", lambda: MapValue()),
    ("ListValue()", lambda: ListValue()),
    ("dict", lambda: {"a": 1}),
]


def exec_op(world, op):
    try:
        if op[0] == "bad_add":
            _, dst, src, bi = op
            world.get("schemas", dst).add_schema(world.get("schemas", src), BAD_ROOTS[bi][1]())
            return ("ok", "added")
        if op[0] == "add":
            _, dst, src, ri = op
            world.get("schemas", dst).add_schema(world.get("schemas", src), world.roots[ri])
            return ("ok", "added")
        if op[0] == "validate":
            _, si, di = op
            return ("ok", canon_vd(world.get("schemas", si).validate(world.get("docs", di))))
        raise ValueError(op)
    except Exception as e:
        return ("raise", type(e).__name__)


def has_path_args(t):
    if isinstance(t, tuple):
        if t and t[0] in ("path", "pref") and len(t) > 1 and isinstance(t[1], (tuple, int)):
            return True
        return any(has_path_args(i) for i in t)
    return False


def cond_has_path_args(cond):
    if cond[0] == "leaf":
        return any(_arg_has_path(a) for a in cond[3]) or any(_arg_has_path(a) for _k, a in cond[4])
    if cond[0] in ("and", "or", "xor"):
        return cond_has_path_args(cond[1]) or cond_has_path_args(cond[2])
    return False


def _arg_has_path(a):
    if a[0] in ("path", "pref"):
        return True
    if a[0] == "lv":
        return any(_arg_has_path(x) for x in a[1])
    return False


def failing_paths(vd):
    out = []
    for rt in vd.rule_tests:
        for f in rt.failures:
            out.append(snap(f.path))
    return sorted(out, key=repr)


def semantic_check(world, model_before, op, docs):
    """The property's own reading: S-after judges a document as S-before plus
    T's judgement of what lies at R (on documents where that is well defined)."""
    _, dst, src, ri = op
    mo = model_before
    t_rules = mo.schemas[src]
    if any(mr.cast is not None or mr.mmod is not None or cond_has_path_args(mr.cond) for mr in t_rules):
        return None, 0
    checked = 0
    root = build_root(mo.w, world.term["roots"][ri])
    root_path = root if isinstance(root, DataPath) else DataPath(root)
    for di, d in enumerate(docs):
        try:
            sel = root_path.get_data(d, return_paths=True)
        except Exception:
            continue
        if root_path.is_concrete:
            sel = [] if sel is None else [sel]
        nodes = [(n, cp) for n, cp in sel]
        if any(not (isinstance(n, (dict, list)) and n) for n, _cp in nodes):
            continue
        try:
            _ps = pristine_state()
            _ps.__enter__()
            before = mo.fresh_schema(dst).validate(d)
            exp_paths = failing_paths(before)
            exp_fail = before.num_failures
            tested_t = set()
            all_valid = before.is_valid
            for n, cp in nodes:
                tv = mo.fresh_schema(src).validate(n)
                for j, rt in enumerate(tv.rule_tests):
                    if rt.tested:
                        tested_t.add(j)
                    for f in rt.failures:
                        exp_paths.append(snap(tuple(cp) + tuple(f.path)))
                exp_fail += tv.num_failures
                all_valid = all_valid and tv.is_valid
            exp_paths = sorted(exp_paths, key=repr)
            exp_tested = before.num_rules_tested + len(tested_t)
        except Exception:
            continue  # the reference itself is undefined here (C05/C07 territory)
        finally:
            _ps.__exit__(None, None, None)
        try:
            after = world.get("schemas", dst).validate(d)
            got = (after.is_valid, after.num_failures, after.num_rules_tested, failing_paths(after))
        except Exception as e:
            got = ("raise", type(e).__name__)
        checked += 1
        want = (all_valid, exp_fail, exp_tested, exp_paths)
        if got != want:
            field = "raise" if got[0] == "raise" else next(n for n, a, b in zip(("is_valid", "num_failures", "num_rules_tested", "failing_paths"), got, want) if a != b)
            return (
                dict(
                    oracle="judgement_not_S_plus_T_at_R",
                    locus=field,
                    detail={"op": op, "doc": di, "expected": repr(want)[:800], "got": repr(got)[:800]},
                ),
                checked,
            )
    return None, checked


def rules_proj(rules):
    """What a schema 'consists of', as far as a caller can tell: per rule the
    path parts, the path modifiers, the condition, the cast and the doc.  The
    path's internal `is_concrete` flag is left out on purpose (the property
    does not say whether a re-rooted concrete path stays concrete; behaviour is
    compared separately)."""
    out = []
    for r in rules:
        p = getattr(r, "path", None)
        g = lambda name: snap(getattr(p, name, "<missing>"))
        out.append(
            (
                "obj",
                "valida.rules.Rule",
                (
                    ("cast", snap(getattr(r, "cast", "<missing>"))),
                    ("condition", snap(getattr(r, "condition", "<missing>"))),
                    ("doc", snap(getattr(r, "doc", "<missing>"))),
                    ("path.DATUM_TYPE", g("DATUM_TYPE")),
                    ("path.MULTI_TYPE", g("MULTI_TYPE")),
                    ("path.parts", g("parts")),
                    ("path.source_data", g("source_data")),
                ),
            )
        )
    return ("list", tuple(out))


def on_boundary(eng, c, k, op, out):
    world = eng.world
    st = world.state
    model = st["model"]
    docs = [world.get("docs", i) for i in range(len(world.term["docs"]))]
    vio = []
    if st["abandoned"]:
        return vio
    if op[0] == "bad_add":
        # A call the library rejects.  Reference: the same call on freshly built
        # schemas.  If THAT raises, the shared call must raise the same way and -
        # the caller having been told that nothing was added - every schema must
        # still be what the model says (the comparison below): "S consists of its
        # previous rules plus ..." leaves no room for left-overs of a refused call.
        # If the reference accepts such a root (a tree that coerces it), the model
        # cannot follow and the rest of this run is not judged (counted).
        with pristine_state():
            try:
                model.fresh_schema(op[1]).add_schema(model.fresh_schema(op[2]), BAD_ROOTS[op[3]][1]())
                ref = ("ok", "added")
            except Exception as e:
                ref = ("raise", type(e).__name__)
        if ref[0] == "ok" and len(model.schemas[op[2]]) == 0:
            pass  # nothing to add, so the root was never looked at: a no-op in the model as well
        elif ref[0] == "ok":
            st["abandoned"] = True
            st["rejected_adds_accepted_by_reference"] += 1
            return vio
        st["rejected_adds"] += 1
        if out != ref:
            vio.append(dict(oracle="rejected_add_differs_from_fresh", locus=f"{BAD_ROOTS[op[3]][0]}:{out[0]}:{out[1] if out[0] == 'raise' else ''}", detail={"op": op, "shared": out, "fresh": ref}))
            return vio
    if op[0] == "add":
        before = copy.copy(model)
        before.schemas = [list(s) for s in model.schemas]
        if out[0] == "raise":
            vio.append(dict(oracle="add_schema_raised", locus=out[1], detail={"op": op}))
            return vio
        model.add(op[1], op[2], world.term["roots"][op[3]])
        st["adds"] += 1
        dst_real = world.get("schemas", op[1])
        order_as_model = True
        try:
            order_as_model = rules_proj(model.fresh_schema(op[1]).rules) == rules_proj(dst_real.rules)
        except Exception:
            pass
        if order_as_model or sum(1 for r in dst_real.rules if getattr(r, "cast", None)) < 2:
            v, n = semantic_check(world, before, op, docs)
            st["semantic_checked"] += n
            if v:
                vio.append(v)
    # structural + behavioural comparison of EVERY schema with the model
    for i in range(len(world.term["schemas"])):
        real = world.get("schemas", i)
        try:
            fresh = model.fresh_schema(i)
        except Exception as e:  # model cannot be built: harness-side problem
            raise RuntimeError(f"reference model not buildable: {e!r}")
        a, b = rules_proj(fresh.rules), rules_proj(real.rules)
        is_add = op[0] in ("add", "bad_add")
        role = "source" if is_add and i == op[2] else ("receiver" if is_add and i == op[1] else "bystander")
        if op[0] == "bad_add" and role != "bystander":
            role += "_of_rejected_add"
        same_order = a == b
        if not same_order:
            # The property fixes the order only up to "shortest path first": another
            # order of rules with equally long paths is not a violation.  So: same
            # multiset of rules, and path lengths non-decreasing.
            sa, sb = sorted(a[1], key=repr), sorted(b[1], key=repr)
            if sa != sb:
                path = diff_path(("list", tuple(sa)), ("list", tuple(sb))) if len(sa) == len(sb) else diff_path(a, b)
                vio.append(
                    dict(
                        oracle="rules_differ_from_model",
                        locus=f"{role}:{attr_locus(path)}",
                        detail={"schema": i, "after_op": op, "diff": list(path or ()), "n_model": len(fresh.rules), "n_real": len(real.rules)},
                    )
                )
                return vio
            try:
                lens = [len(r.path) for r in real.rules]
            except Exception:
                lens = None
            if lens is None or lens != sorted(lens):
                vio.append(dict(oracle="rules_differ_from_model", locus=f"{role}:not_shortest_path_first", detail={"schema": i, "after_op": op, "path_lengths": lens}))
                return vio
            st["tie_order_differs_from_model"] += 1
        st["structural_checked"] += 1
        if not same_order and sum(1 for r in real.rules if getattr(r, "cast", None)) >= 2:
            # rules with casts see the casts of the cast rules before them, so with
            # two or more cast rules the verdict may legitimately depend on the
            # order of equally long paths, which the property leaves open
            st["behaviour_skipped_tie_order_and_casts"] += 1
            continue
        for di, d in enumerate(docs):
            with pristine_state():
                want = validate_outcome(fresh, d, strict=same_order)
            got = validate_outcome(real, d, strict=same_order)
            st["behavioural_checked"] += 1
            if want != got:
                vio.append(
                    dict(
                        oracle="validates_differently_from_model",
                        locus="validate",
                        detail={"schema": i, "doc": di, "after_op": op, "model": repr(want)[:600], "real": repr(got)[:600]},
                    )
                )
                return vio
    return vio


def validate_outcome(schema, d, strict):
    """Canonical outcome of schema.validate(d).  `strict`: everything, in rule
    order (used when the schema's rules are in exactly the model's order).
    Otherwise only what does not depend on the order of equally long paths:
    verdict, counts and the multiset of per-rule verdicts."""
    try:
        vd = schema.validate(d)
        if strict:
            return ("ok", canon_vd(vd))
        cores = sorted(
            (
                (rt.tested, rt.is_valid, rt.num_failures, tuple((snap(f.value), snap(f.path), snap(f.reasons)) for f in rt.failures))
                for rt in vd.rule_tests
            ),
            key=repr,
        )
        return ("ok", ("vd-unordered", vd.is_valid, vd.num_failures, vd.num_rules_tested, tuple(cores), isinstance(vd.get_failures_string(), str)))
    except Exception as e:
        # which rule raises first depends on the order of equally long paths
        return ("raise", type(e).__name__ if strict else "*")


def run(case):
    term = case["world"]
    world = World(term)
    world.roots = [build_root(world, rt) for rt in term["roots"]]
    for i in range(len(term["schemas"])):
        world.get("schemas", i)
    # Nothing is registered with the digest monitor: "T itself is unchanged" is
    # decided by comparing every schema with the reference model after every
    # step; whether validate() leaves documents, rules and paths alone is C08's
    # statement, not C18's.
    mon = Monitor()
    world.state = {"model": Model(term), "adds": 0, "semantic_checked": 0, "structural_checked": 0, "behavioural_checked": 0, "tie_order_differs_from_model": 0, "behaviour_skipped_tie_order_and_casts": 0, "abandoned": False, "rejected_adds": 0, "rejected_adds_accepted_by_reference": 0}
    eng = Engine(world, case["programs"], exec_op, mon, Scripted(case["decisions"]), mode="op", on_boundary=on_boundary)
    eng.run()
    st = world.state
    ops = [op for p in case["programs"] for op in p]
    adds = [op for op in ops if op[0] == "add"]
    # non-trivial: some schema is the source of two additions (different root or receiver)
    by_src = {}
    for op in adds:
        by_src.setdefault(op[2], set()).add((op[1], op[3]))
    reuse = any(len(v) > 1 for v in by_src.values())
    chain = any(a[1] == b[2] for a in adds for b in adds if a is not b)
    key = digest((term, case["programs"], case["decisions"]))
    stats = {
        "runs": 1,
        "ops": len(ops),
        "steps": eng.step,
        "adds": st["adds"],
        "validates": sum(1 for op in ops if op[0] == "validate"),
        "faults_fired": {"rejected_add": st["rejected_adds"]},
        "rejected_adds_accepted_by_reference_run_not_judged_further": st["rejected_adds_accepted_by_reference"],
        "same_source_added_more_than_once": 1 if reuse else 0,
        "chained_additions": 1 if chain else 0,
        "structural_comparisons": st["structural_checked"],
        "behavioural_comparisons": st["behavioural_checked"],
        "semantic_S_plus_T_checks": st["semantic_checked"],
        "schemas_whose_tie_order_differs_from_model": st["tie_order_differs_from_model"],
        "set:histories": {key},
    }
    return Report(eng.violations, stats, eng.event_digest(), case=case, nontrivial_key=key if (reuse or chain) else None)


def sample(case):
    return {"world": case["world"], "programs": case["programs"], "decisions": case["decisions"]}


def evidence_info():
    return {
        "rule": (
            "one evaluation = one seeded history: 1-3 callers interleaved at operation boundaries issue 2-8 add_schema / validate operations over "
            "3-7 shared schemas, 1-4 roots (concrete, bare MapValue()/ListValue() parts, str) and 2-4 documents; after EVERY step every schema is compared "
            "with the list-of-rules reference model structurally (snapshot of .rules) and behaviourally (validate on every document), plus the S-before + "
            "T-at-R reading where it is well defined. distinct = distinct (world, programs, interleaving) digests; non-trivial = some schema is the source "
            "of at least two additions (different root or receiver) or additions are chained."
        ),
        "components": {
            "real": ["all of valida from the working tree", "CPython 3.12"],
            "simulated": ["the order in which callers' add_schema / validate operations are applied to the shared schemas"],
            "shim": [],
            "stubbed": [],
            "reference_model": ["schema = list of rule terms; add(S,T,R) = stable sort by path length of S ++ [re-root(r,R) for r in T]; T unchanged; re-root keeps the rule path's modifiers"],
        },
        "assumptions": [
            "'re-rooted at R' is read as: R's parts followed by the rule path's parts, the rule path's datum/multi modifiers kept",
            "the S-before + T-at-R reading is only evaluated for cast-free T rules without path-valued arguments and without multi-type modifiers, on documents where every node selected by R is a non-empty list/mapping",
            "operation-boundary histories only; never two writers on one schema, never S.add_schema(S, ...)",
            "30 % of the worlds also contain 1-2 add_schema calls with a root that is not a path (None, tuple, list, bare part, dict): where the same call on fresh schemas raises, the shared call must raise the same way and is a no-op in the model (a refused addition leaves nothing behind in S or T); if the reference accepts the root the rest of that run is not judged",
            "the order of rules with equally long paths is left open, as the statement leaves it; no digest monitor is used (whether validate() leaves its inputs alone is C08's statement): 'T unchanged' is decided by the model comparison of every schema after every step",
        ],
    }
