"""C02 - and/or/xor combinations are pointwise Boolean algebra with null as
identity; building a combination never alters its operands (DESIGN.md 5.2).

History = an op-boundary interleaving of callers that build combinations,
spec folds and container parts out of one *shared* pool of condition objects.
After every step the new entry and every older entry are compared with a small
Boolean model over probe documents, and the digests of all older entries must
be unchanged.
"""
from valida.conditions import ConditionLike

from .. import gen as G
from ..common import Report, stream, digest, order_to_decisions, big
from ..isolation import pristine_state
from ..engine import Engine, Monitor, Scripted
from ..terms import World, OP_CLS, COND_KIND, PART_CLS, snap

PID = "C02"
OPS = ("and", "or", "xor")
ID = "ID"  # model value of the null condition: identity of every operator
UNDEF = "UNDEF"


# --------------------------------------------------------------------------
# generation
# --------------------------------------------------------------------------


def generate(seed):
    r = stream(seed, "world")
    knobs = G.default_knobs(
        r,
        path_args=False,
        from_str=False,
        modifiers=False,
        p_blind_path=0.0,
        depth=r.choice([1, 2, 2, 3]),
    )
    knobs["n_callers"] = r.randint(1, 3)
    knobs["n_steps"] = r.randint(3, 12) + (r.randint(4, 16) if big(r) else 0)
    knobs["p_null_operand"] = r.choice([0.1, 0.25, 0.4])
    knobs["kinds"] = r.choice([("value",), ("value", "key"), ("value", "index"), ("value", "key", "index"), ("value", "key", "index")])
    knobs["op_mix"] = r.choice([(1.0, 0.0, 0.0), (0.7, 0.15, 0.15), (0.5, 0.25, 0.25), (0.6, 0.4, 0.0), (0.6, 0.0, 0.4)])
    g = G.Gen(r, knobs)

    # probe documents: mappings and lists
    docs = []
    for _ in range(r.randint(2, 4)):
        d = g.container(knobs["depth"], nonempty=True)
        docs.append(d)
    if not any(isinstance(d, dict) for d in docs):
        docs.append({"a": 1, "b": [1, 2], "c": "x"})
    if not any(isinstance(d, list) for d in docs):
        docs.append([1, "a", {"a": 1}, 2.5])
    if r.random() < 0.5:
        # a "type zoo": values that are == but of different types
        zoo = [True, 1, 1.0, 0, False, 0.0, "1", None, "", [], {}]
        r.shuffle(zoo)
        docs.append(zoo[: r.randint(4, len(zoo))] if r.random() < 0.6 else {k: v for k, v in zip("abcdefghijk", zoo)})
    knobs["dtype_heavy"] = r.random() < 0.2
    ctx = g.context(docs)

    init = []
    n_init = r.randint(3, 7)
    for _ in range(n_init):
        kind = r.choice(knobs["kinds"])
        c = r.random()
        if c < 0.15:
            init.append(("null",))
        elif kind == "value":
            if knobs["dtype_heavy"] and r.random() < 0.6:
                tn = ["int", "bool", "float", "str", "NoneType"]
                init.append(r.choice([
                    ("leaf", "Value.dtype", "equal_to", (("ty", r.choice(tn)),), ()),
                    ("leaf", "Value", "is_instance", tuple(("ty", n) for n in r.sample(tn, r.randint(1, 2))), ()),
                    ("leaf", "Value.dtype", "in_", (("tyl", tuple(r.sample(tn, r.randint(1, 3)))),), ()),
                ]))
            else:
                init.append(g.value_leaf(ctx))
        elif kind == "key":
            init.append(g.key_leaf(ctx))
        else:
            init.append(g.index_leaf(3))
    if not any(t == ("null",) for t in init):
        init.append(("null",))

    # the history: a global order of (caller, op); each op owns a result slot
    slots = list(range(len(init)))
    slot_kind = {i: "cond" for i in slots}
    gmodel = {i: t for i, t in enumerate(init)}  # model terms, to know each entry's kind while generating
    programs = [[] for _ in range(knobs["n_callers"])]
    order = []
    next_slot = len(init)
    nulls = [i for i, t in enumerate(init) if t == ("null",)]
    p_comb, p_fold, p_part = knobs["op_mix"]
    for _ in range(knobs["n_steps"]):
        c = r.randrange(knobs["n_callers"])
        conds = [s for s in slots if slot_kind[s] == "cond"]
        x = r.random()
        if x < p_comb:
            a = r.choice(nulls) if r.random() < knobs["p_null_operand"] else r.choice(conds)
            b = r.choice(nulls) if r.random() < knobs["p_null_operand"] else r.choice(conds)
            if r.random() < 0.5 and len(conds) > len(init):
                # bias: reuse a result of an earlier step
                a = r.choice(conds[len(init):]) if r.random() < 0.5 else a
                b = r.choice(conds[len(init):]) if r.random() < 0.3 else b
            opn = r.choice(OPS)
            op = ("combine", next_slot, opn, a, b, r.choice(["operator", "class"]))
            slot_kind[next_slot] = "cond"
            gmodel[next_slot] = (opn, gmodel[a], gmodel[b])
        elif x < p_comb + p_fold:
            opn = r.choice(OPS)
            items = _gen_fold_items(r, g, ctx, 2)
            op = ("spec_fold", next_slot, opn, items)
            slot_kind[next_slot] = "cond"
            gmodel[next_slot] = fold_model(opn, items)
        else:
            kind = r.choice(["map", "list", "mol"])
            allowed = {"map": ["key", "value", "condition"], "list": ["index", "value", "condition"], "mol": ["key", "index", "value", "condition", "list_condition", "map_condition"]}[kind]
            kw = []
            want = {"key": {"key"}, "index": {"index"}, "value": {"value"}, "map_condition": {"key"}, "list_condition": {"index"}}
            for name in allowed:
                if r.random() < 0.45:
                    if r.random() < 0.8:
                        # mostly an entry of the kind this argument accepts; combinations preferred
                        ok = [c_ for c_ in conds if kinds_of(simplify(gmodel[c_])) <= want.get(name, {"value"}) and simplify(gmodel[c_]) != ("null",)]
                        combos = [c_ for c_ in ok if simplify(gmodel[c_])[0] in OPS]
                        pick = combos if combos and r.random() < 0.6 else ok
                        if pick:
                            kw.append((name, r.choice(pick)))
                            continue
                    kw.append((name, r.choice(conds)))
            op = ("part", next_slot, kind, tuple(kw))
            slot_kind[next_slot] = "part"
        slots.append(next_slot)
        next_slot += 1
        programs[c].append(op)
        order.append(c)

    return {
        "property": PID,
        "seed": seed,
        "knobs": knobs,
        "world": {"docs": docs, "conds": init},
        "programs": programs,
        "decisions": order_to_decisions(order),
    }


SPECABLE = {
    "equal_to": 1,
    "not_equal_to": 1,
    "less_than": 1,
    "greater_than": 1,
    "less_than_or_equal_to": 1,
    "greater_than_or_equal_to": 1,
    "in_": 1,
    "not_in": 1,
    "truthy": 0,
    "falsy": 0,
    "null": 0,
}


def _gen_fold_items(r, g, ctx, depth):
    items = []
    for _ in range(r.randint(0, 3)):
        x = r.random()
        if items and x < 0.15:
            items.append(r.choice(items))  # the same entry again (a == a)
            continue
        if x < 0.2:
            items.append(("null",))
        elif x < 0.5 and depth > 0:
            items.append((r.choice(OPS), _gen_fold_items(r, g, ctx, depth - 1)))
        else:
            for _try in range(20):
                t = g.general_leaf("Value", ctx)
                if t[2] in SPECABLE and all(a[0] == "v" for a in t[3]):
                    break
            else:
                t = ("leaf", "Value", "truthy", (), ())
            items.append(t)
    return tuple(items)


def fold_spec(opname, items):
    """The raw spec structure for a fold term."""
    out = []
    for it in items:
        if it == ("null",):
            out.append({} if len(out) % 2 else None)
        elif it[0] == "leaf":
            _, cls, meth, args, _kw = it
            name = "in" if meth == "in_" else meth
            key = f"{cls.lower()}.{name}"
            val = None if not args else __import__("copy").deepcopy(args[0][1])
            out.append({key: val})
        else:
            out.append(fold_spec(it[0], it[1]))
    return {opname: out}


def fold_model(opname, items):
    """Left fold, as documented: nested combinations of the items in order."""
    acc = ("null",)
    for it in items:
        t = it if it[0] in ("leaf", "null") else fold_model(it[0], it[1])
        acc = (opname, acc, t)
    return acc


# --------------------------------------------------------------------------
# Boolean reference model
# --------------------------------------------------------------------------


def simplify(t):
    """Drop nulls (identity). Returns ("null",) if nothing is left."""
    if t[0] in OPS:
        a, b = simplify(t[1]), simplify(t[2])
        if a == ("null",):
            return b
        if b == ("null",):
            return a
        return (t[0], a, b)
    return t


def kinds_of(t):
    if t[0] in OPS:
        return kinds_of(t[1]) | kinds_of(t[2])
    if t[0] == "leaf":
        return {COND_KIND[t[1]]}
    return set()


PYOP = {"and": lambda a, b: a and b, "or": lambda a, b: a or b, "xor": lambda a, b: a != b}


class Model:
    def __init__(self, docs):
        self.docs = docs
        self.leaf_cache = {}
        self.skipped_pairs = 0
        self.unjudged_ok = 0
        self.unjudged_raised = 0
        self.checked_pairs = 0

    def leaf_vec(self, t, di):
        key = (repr(t), di)
        if key not in self.leaf_cache:
            with pristine_state():
                try:
                    fresh = World({"conds": [t], "docs": self.docs})
                    res = list(fresh.get("conds", 0).filter(fresh.get("docs", di)).result)
                except Exception:
                    res = UNDEF
            self.leaf_cache[key] = res
        return self.leaf_cache[key]

    def vec(self, t, di):
        if t[0] == "null":
            return ID
        if t[0] == "leaf":
            return self.leaf_vec(t, di)
        a, b = self.vec(t[1], di), self.vec(t[2], di)
        if a is UNDEF or b is UNDEF:
            return UNDEF
        if a is ID:
            return b
        if b is ID:
            return a
        f = PYOP[t[0]]
        return [f(x, y) for x, y in zip(a, b)]

    def expect(self, t, di):
        v = self.vec(t, di)
        if v is ID:
            return [True] * len(self.docs[di])
        return v


# --------------------------------------------------------------------------
# execution
# --------------------------------------------------------------------------


class State:
    def __init__(self, world_term):
        self.pool = {}  # slot -> condition object
        self.model = {}  # slot -> model term
        self.parts = {}  # slot -> (part object, kind, {kw: model term})
        self.expect_err = {}  # slot -> expected exception name or None
        self.model_obj = Model(world_term["docs"])
        self.docs = []  # the built probe documents (never the term itself)
        self.unspecified = set()  # Key-with-Index combinations: outside the statement
        self.parts_built = 0


def part_models(kind, kw):
    """Model terms of the and-combinations a part applies on a list / a map."""
    g = lambda k: kw.get(k, ("null",))
    if kind == "map":
        return {"map": ("and", ("and", g("condition"), g("key")), g("value")), "list": None}
    if kind == "list":
        return {"list": ("and", ("and", g("condition"), g("index")), g("value")), "map": None}
    cond = ("and", g("condition"), g("value"))
    return {
        "list": ("and", ("and", g("list_condition"), g("index")), cond),
        "map": ("and", ("and", g("map_condition"), g("key")), cond),
    }


def exec_op(world, op):
    st = world.state
    kind = op[0]
    slot = op[1]
    try:
        if kind == "combine":
            _, _, opname, a, b, via = op
            if a not in st.pool or b not in st.pool:
                return ("skipped",)
            A, B = st.pool[a], st.pool[b]
            st.pending = (slot, (opname, st.model[a], st.model[b]))
            if via == "operator":
                obj = A & B if opname == "and" else (A | B if opname == "or" else A ^ B)
            else:
                obj = OP_CLS[opname](A, B)
            st.pool[slot] = obj
            st.model[slot] = st.pending[1]
            return ("ok", "built")
        if kind == "spec_fold":
            _, _, opname, items = op
            st.pending = (slot, fold_model(opname, items))
            obj = ConditionLike.from_spec(fold_spec(opname, items))
            st.pool[slot] = obj
            st.model[slot] = st.pending[1]
            return ("ok", "built")
        if kind == "part":
            _, _, pkind, kws = op
            if any(ref not in st.pool for _k, ref in kws):
                return ("skipped",)
            kwm = {k: st.model[ref] for k, ref in kws}
            st.pending = (slot, ("part", pkind, kwm))
            obj = PART_CLS[pkind](**{k: st.pool[ref] for k, ref in kws})
            st.parts[slot] = (obj, pkind, kwm)
            return ("ok", "built")
        raise ValueError(f"unknown op {op!r}")
    except Exception as e:
        return ("raise", type(e).__name__)


def _shape(t):
    return t[0] if t[0] in OPS or t[0] == "null" else "leaf"


def expected_build_error(pending):
    """Does the property allow this construction to be refused?  Only the
    documented TypeError for key-with-index mixtures (and, for parts, for
    conditions of the wrong kind)."""
    _slot, m = pending
    if m[0] == "part":
        _, pkind, kwm = m
        want = {"key": "key", "index": "index", "value": "value"}
        for k, t in kwm.items():
            if k in want and simplify(t) != ("null",) and kinds_of(simplify(t)) != {want[k]}:
                return True
        for terms in part_models(pkind, kwm).values():
            if terms is not None:
                ks = kinds_of(simplify(terms))
                if "key" in ks and "index" in ks:
                    return True
        # intermediate combinations (condition & key, ...) may mix too
        allk = set()
        for t in kwm.values():
            allk |= kinds_of(simplify(t))
        return "key" in allk and "index" in allk
    ks = kinds_of(simplify(m))
    return "key" in ks and "index" in ks


def mixes_key_and_index(m):
    ks = kinds_of(simplify(m))
    return "key" in ks and "index" in ks


def on_boundary(eng, c, k, op, out):
    world = eng.world
    st = world.state
    mo = st.model_obj
    docs = st.docs
    vio = []
    if out == ("skipped",):
        return vio
    slot = op[1]
    pending = getattr(st, "pending", None)
    m = pending[1]
    if m[0] == "part":
        # Container parts are only *users* of pool entries here: what a part
        # selects is path semantics (C03, not claimed).  Whether the construction
        # is accepted or refused, the operands must come out of it unaltered -
        # that is checked below for every pool entry.
        st.parts_built += 1 if out[0] == "ok" else 0
    elif mixes_key_and_index(m):
        # Key together with Index is outside the statement ("value-kind mixed
        # with key-kind or with index-kind"): refusing it or accepting it are
        # both fine, and nothing is demanded of such an entry.
        st.unspecified.add(slot)
        st.pool.pop(slot, None)
        st.model.pop(slot, None)
    elif out[0] == "raise":
        vio.append(
            dict(
                oracle="internal_error_on_build",
                locus=f"{op[0]}->{out[1]}",
                detail={"op": op, "model": m, "exception": out[1]},
            )
        )
    else:
        eng.monitor.register(f"pool[{slot}]", st.pool[slot])

    # every pool entry (new and old) must filter every probe as its model says
    for s in sorted(st.pool):
        obj = st.pool[s]
        m = st.model[s]
        for di, d in enumerate(docs):
            exp = mo.expect(m, di)
            if exp is UNDEF:
                # An operand raises on this document, so the statement says nothing
                # about what the combination gives here - but the call is a legal
                # one that FAILS, and the caller carries on with the same objects:
                # it is made (its outcome is not judged) so that whatever a failed
                # filter call leaves behind shows in the comparisons that follow
                # ("each operand afterwards still filters as before").
                mo.skipped_pairs += 1
                try:
                    obj.filter(d)
                    mo.unjudged_ok += 1
                except Exception:
                    mo.unjudged_raised += 1
                continue
            mo.checked_pairs += 1
            try:
                fd = obj.filter(d)
                got = list(fd.result)
                items = list(d.items()) if isinstance(d, dict) else list(enumerate(d))
                sel_keys = [kk for (kk, _v), e in zip(items, got) if e]
                sel_vals = [vv for (_k, vv), e in zip(items, got) if e]
                consistent = (
                    snap(fd.keys) == snap(sel_keys)
                    and snap(fd.data) == snap(sel_vals)
                    and list(fd.failure_indices) == [i for i, e in enumerate(got) if not e]
                )
            except Exception as e:
                got = ("raise", type(e).__name__)
                consistent = True
            if got != exp or not consistent:
                is_new = s == slot
                simp = simplify(m)
                null_involved = simp != m
                oracle = "algebra_mismatch" if is_new and not null_involved else ("null_identity" if is_new else "operand_changed_behaviour")
                vio.append(
                    dict(
                        oracle=oracle,
                        locus=f"{_shape(simp)}:{'raise:' + got[1] if isinstance(got, tuple) else ('accessors' if got == exp else 'result')}",
                        detail={"slot": s, "model": m, "doc": di, "expected": exp, "got": got, "after_op": op},
                    )
                )
                return vio
    return vio


def run(case):
    world = World(case["world"])
    world.state = State(case["world"])
    st = world.state
    mon = Monitor()
    st.docs = [world.get("docs", i) for i in range(len(case["world"]["docs"]))]
    for i, t in enumerate(case["world"]["conds"]):
        obj = world.get("conds", i)
        st.pool[i] = obj
        st.model[i] = t
        mon.register(f"pool[{i}]", obj)
    eng = Engine(
        world,
        case["programs"],
        exec_op,
        mon,
        Scripted(case["decisions"]),
        mode="op",
        on_boundary=on_boundary,
    )
    eng.run()
    n_ops = sum(len(p) for p in case["programs"])
    built = sum(1 for o in eng.outcomes.values() if o[0] == "ok")
    reused = _count_reuse(case)
    stats = {
        "runs": 1,
        "ops": n_ops,
        "steps": eng.step,
        "ops_built": built,
        "ops_refused_or_failed": sum(1 for o in eng.outcomes.values() if o[0] == "raise"),
        "ops_skipped": sum(1 for o in eng.outcomes.values() if o[0] == "skipped"),
        "probe_pairs_checked": st.model_obj.checked_pairs,
        "probe_pairs_skipped_undefined": st.model_obj.skipped_pairs,
        "faults_fired": {"filter_call_that_raises": st.model_obj.unjudged_raised},
        "undefined_pairs_filtered_anyway_without_raising": st.model_obj.unjudged_ok,
        "ops_by_kind": _by_kind(case),
        "key_with_index_combinations_outside_the_statement": len(st.unspecified),
        "parts_built_from_pool_entries": st.parts_built,
        "null_next_to_same_op_combination": _count_null_same_op(case, st),
        "operands_reused_after_use": reused,
        "set:histories": {digest((case["world"], case["programs"], case["decisions"]))},
    }
    nontrivial = digest((case["world"], case["programs"], case["decisions"])) if reused > 0 else None
    return Report(eng.violations, stats, eng.event_digest(), case=case, nontrivial_key=nontrivial)


def _by_kind(case):
    d = {}
    for p in case["programs"]:
        for op in p:
            d[op[0]] = d.get(op[0], 0) + 1
    return d


def _count_reuse(case):
    """Number of operand uses that refer to an object already used as an
    operand by an earlier operation (in program order per caller, which is a
    lower bound for the global history)."""
    used = set()
    n = 0
    ops = sorted((op for p in case["programs"] for op in p), key=lambda o: o[1])
    for op in ops:
        refs = []
        if op[0] == "combine":
            refs = [op[3], op[4]]
        elif op[0] == "part":
            refs = [r for _k, r in op[3]]
        for r in refs:
            if r in used:
                n += 1
        used.update(refs)
    return n


def _count_null_same_op(case, st):
    n = 0
    for p in case["programs"]:
        for op in p:
            if op[0] == "combine" and op[3] in st.model and op[4] in st.model:
                a, b = st.model[op[3]], st.model[op[4]]
                sa, sb = simplify(a), simplify(b)
                if (sa == ("null",) and sb[0] == op[2]) or (sb == ("null",) and sa[0] == op[2]):
                    n += 1
    return n


def sample(case):
    return {"world": case["world"], "programs": case["programs"], "decisions": case["decisions"]}


def op_variants(op):
    """Simpler versions of one operation (for the minimiser)."""
    if op[0] == "spec_fold":
        _, slot, opname, items = op
        for v in _items_variants(items):
            yield ("spec_fold", slot, opname, v)
        if opname != "and":
            yield ("spec_fold", slot, "and", items)
    elif op[0] == "part":
        _, slot, kind, kws = op
        for i in range(len(kws)):
            yield ("part", slot, kind, kws[:i] + kws[i + 1 :])
    elif op[0] == "combine":
        _, slot, opname, a, b, via = op
        if via != "operator":
            yield ("combine", slot, opname, a, b, "operator")


def _items_variants(items):
    for i in range(len(items)):
        yield items[:i] + items[i + 1 :]
    for i, it in enumerate(items):
        if it[0] in OPS:
            # hoist the nested list, or shrink inside it
            yield items[:i] + tuple(it[1]) + items[i + 1 :]
            for v in _items_variants(it[1]):
                yield items[:i] + ((it[0], v),) + items[i + 1 :]
        elif it[0] == "leaf":
            if it != ("leaf", "Value", "truthy", (), ()):
                yield items[:i] + (("leaf", "Value", "truthy", (), ()),) + items[i + 1 :]


def evidence_info():
    return {
        "rule": (
            "one evaluation = one seeded history: 1-3 callers interleaved at operation boundaries build 3-12 combinations "
            "(operator and class call), spec-list folds and container parts from ONE shared pool of condition objects; after "
            "every step every pool entry is compared with a Boolean model on 2-6 probe documents and all older entries' "
            "digests must be unchanged. Container parts are built from pool entries only as *users* of them (operands must come out unaltered; what a part selects is C03's); "
            "Key-with-Index combinations are outside the statement and nothing is demanded of them. distinct = distinct (world, programs, interleaving) digests; non-trivial = the history "
            "uses at least one operand that an earlier operation already used (operand reuse after combination)."
        ),
        "components": {
            "real": ["all of valida (conditions, data, datapath) from the working tree", "CPython 3.12"],
            "simulated": ["the order in which callers' build operations are applied to the shared pool (seeded interleaving at operation boundaries)"],
            "shim": ["harness-installed __setattr__ write tracer on valida classes (checking process only)"],
            "stubbed": [],
            "reference_model": ["pointwise Boolean algebra with null identity over leaf vectors taken from freshly built leaves"],
        },
        "assumptions": [
            "the meaning of a single leaf condition is taken from the code (fresh leaf, real filter); leaf semantics is C01, not claimed here",
            "probe pairs on which a leaf is undefined or raises (key-kind leaf on a list, ...) are skipped and counted",
            "verdicts come from operation-boundary histories only; no pre-emption inside a build (the property is not quantified over schedules)",
        ],
    }
