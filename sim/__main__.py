import sys

from .driver import main

if __name__ == "__main__":
    sys.exit(main(sys.argv[1:]))
