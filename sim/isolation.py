"""One seed = one run, even against a valida that keeps hidden process-wide
state: before every simulated run the mutable module-level state of the
imported valida modules is put back to what it was at import time -
module globals, class attributes and function default arguments that are
dict / list / set objects (restored *in place*), and `functools` caches.

The pinned valida has no such state (DESIGN.md 1); a change to valida may add
some (a module-level cache, a mutable default argument).  Without this reset a
run would depend on which runs the same worker process happened to execute
before it, the failure would not replay in a fresh process, and the
determinism self-check would turn a real defect into a harness error.
"""
import copy
import sys
import types

_PRISTINE = None


def _mutable(x):
    return type(x) in (dict, list, set)


def _collect():
    out = []  # (live object, pristine deep copy)
    caches = []
    seen = set()

    def add(obj):
        if _mutable(obj) and id(obj) not in seen:
            seen.add(id(obj))
            try:
                out.append((obj, copy.deepcopy(obj)))
            except Exception:
                pass

    def add_func(f):
        f = getattr(f, "__func__", f)
        if hasattr(f, "cache_clear"):
            caches.append(f)
            f = getattr(f, "__wrapped__", f)
        if isinstance(f, types.FunctionType):
            for d in f.__defaults__ or ():
                add(d)
            for d in (f.__kwdefaults__ or {}).values():
                add(d)

    for name, mod in sorted(sys.modules.items()):
        if mod is None or not (name == "valida" or name.startswith("valida.")):
            continue
        for k, v in sorted(vars(mod).items()):
            if k.startswith("__"):
                continue
            add(v)
            if isinstance(v, (types.FunctionType, staticmethod, classmethod)) or hasattr(v, "cache_clear"):
                add_func(v)
            elif isinstance(v, type) and getattr(v, "__module__", "").startswith("valida"):
                for ck, cv in sorted(vars(v).items()):
                    if ck.startswith("__") and ck.endswith("__") and ck not in ("__init__", "__new__", "__call__"):
                        continue
                    add(cv)
                    if isinstance(cv, (types.FunctionType, staticmethod, classmethod, property)) or hasattr(cv, "cache_clear"):
                        if isinstance(cv, property):
                            for g in (cv.fget, cv.fset, cv.fdel):
                                if g is not None:
                                    add_func(g)
                        else:
                            add_func(cv)
    return out, caches


def reset():
    """Restore valida's module-level mutable state; returns how many objects
    had drifted from their import-time value."""
    global _PRISTINE
    if _PRISTINE is None:
        _PRISTINE = _collect()
        return 0
    objs, caches = _PRISTINE
    drift = 0
    for live, pristine in objs:
        if live != pristine:
            drift += 1
            if isinstance(live, list):
                live[:] = copy.deepcopy(pristine)
            else:
                live.clear()
                live.update(copy.deepcopy(pristine))
    for f in caches:
        try:
            if f.cache_info().currsize:
                drift += 1
            f.cache_clear()
        except Exception:
            pass
    return drift


class pristine_state:
    """`with pristine_state():` - run a *reference* computation against the
    import-time module state, then put the accumulated state of the simulated
    history back.  "The same operation on freshly built objects" must not see
    what the shared history left behind in module-level caches (otherwise both
    sides are polluted alike and agree), and computing a reference in the
    middle of a history must not wipe what that history accumulated."""

    def __enter__(self):
        global _PRISTINE
        if _PRISTINE is None:
            _PRISTINE = _collect()
        objs, caches = _PRISTINE
        self.saved = []
        for live, pristine in objs:
            if live != pristine:
                self.saved.append((live, copy.copy(live)))
                if isinstance(live, list):
                    live[:] = copy.deepcopy(pristine)
                else:
                    live.clear()
                    live.update(copy.deepcopy(pristine))
        return self

    def __exit__(self, *exc):
        for live, saved in self.saved:
            if isinstance(live, list):
                live[:] = saved
            else:
                live.clear()
                live.update(saved)
        return False
