"""One seed = one run, even against a valida that keeps hidden process-wide
state: before every simulated run the mutable module-level state of the
imported valida modules is put back to what it was at import time -
module globals, class attributes and function default arguments that are
dict / list / set objects (restored *in place*), and `functools` caches.

The pinned valida has no such state (DESIGN.md 1); a change to valida may add
some (a module-level cache, a mutable default argument).  Without this reset a
run would depend on which runs the same worker process happened to execute
before it, the failure would not replay in a fresh process, and the
determinism self-check would turn a real defect into a harness error.
"""
import copy
import sys
import types

_PRISTINE = None
_SCALARS = []  # (owner, name, value): rebindable module globals / class attributes
_SCALAR_TYPES = (type(None), bool, int, float, str, bytes, tuple, frozenset)


def _mutable(x):
    return type(x) in (dict, list, set)


def _collect():
    out = []  # (live object, pristine deep copy)
    caches = []
    seen = set()

    def add(obj):
        if _mutable(obj) and id(obj) not in seen:
            seen.add(id(obj))
            try:
                out.append((obj, copy.deepcopy(obj)))
            except Exception:
                pass

    def add_func(f):
        f = getattr(f, "__func__", f)
        if hasattr(f, "cache_clear"):
            caches.append(f)
            f = getattr(f, "__wrapped__", f)
        if isinstance(f, types.FunctionType):
            for d in f.__defaults__ or ():
                add(d)
            for d in (f.__kwdefaults__ or {}).values():
                add(d)

    del _SCALARS[:]
    for name, mod in sorted(sys.modules.items()):
        if mod is None or not (name == "valida" or name.startswith("valida.")):
            continue
        for k, v in sorted(vars(mod).items()):
            if k.startswith("__"):
                continue
            add(v)
            if isinstance(v, _SCALAR_TYPES):
                _SCALARS.append((mod, k, v))  # e.g. a module-level "current document" slot
            elif type(v).__module__.startswith("valida") and hasattr(v, "__dict__") and not isinstance(v, type):
                add(vars(v))  # a module-level scratch / singleton object
            if isinstance(v, (types.FunctionType, staticmethod, classmethod)) or hasattr(v, "cache_clear"):
                add_func(v)
            elif isinstance(v, type) and getattr(v, "__module__", "").startswith("valida"):
                for ck, cv in sorted(vars(v).items()):
                    if ck.startswith("__") and ck.endswith("__") and ck not in ("__init__", "__new__", "__call__"):
                        continue
                    add(cv)
                    if isinstance(cv, _SCALAR_TYPES):
                        _SCALARS.append((v, ck, cv))  # e.g. a class-level slot
                    if isinstance(cv, (types.FunctionType, staticmethod, classmethod, property)) or hasattr(cv, "cache_clear"):
                        if isinstance(cv, property):
                            for g in (cv.fget, cv.fset, cv.fdel):
                                if g is not None:
                                    add_func(g)
                        else:
                            add_func(cv)
    return out, caches


def reset():
    """Restore valida's module-level mutable state; returns how many objects
    had drifted from their import-time value."""
    global _PRISTINE
    if _PRISTINE is None:
        _PRISTINE = _collect()
        return 0
    objs, caches = _PRISTINE
    drift = 0
    for live, pristine in objs:
        if live != pristine:
            drift += 1
            if isinstance(live, list):
                live[:] = copy.deepcopy(pristine)
            else:
                live.clear()
                live.update(copy.deepcopy(pristine))
    for f in caches:
        try:
            if f.cache_info().currsize:
                drift += 1
            f.cache_clear()
        except Exception:
            pass
    for owner, name, value in _SCALARS:
        try:
            cur = owner.__dict__.get(name, _SCALARS)
            if cur is not value and cur != value or type(cur) is not type(value):
                drift += 1
                setattr(owner, name, value)
        except Exception:
            pass
    return drift


class pristine_state:
    """`with pristine_state():` - run a *reference* computation against the
    import-time module state, then put the accumulated state of the simulated
    history back.  "The same operation on freshly built objects" must not see
    what the shared history left behind in module-level caches (otherwise both
    sides are polluted alike and agree), and computing a reference in the
    middle of a history must not wipe what that history accumulated."""

    def __enter__(self):
        global _PRISTINE
        if _PRISTINE is None:
            _PRISTINE = _collect()
        objs, caches = _PRISTINE
        self.saved = []
        for live, pristine in objs:
            if live != pristine:
                self.saved.append((live, copy.copy(live)))
                if isinstance(live, list):
                    live[:] = copy.deepcopy(pristine)
                else:
                    live.clear()
                    live.update(copy.deepcopy(pristine))
        # rebindable module-level / class-level slots: remember what the history
        # has bound there, show the reference the import-time value
        self.saved_slots = []
        for owner, name, value in _SCALARS:
            try:
                cur = owner.__dict__.get(name, _SCALARS)
                if cur is not value:
                    self.saved_slots.append((owner, name, cur))
                    setattr(owner, name, value)
            except Exception:
                pass
        return self

    def __exit__(self, *exc):
        for live, saved in self.saved:
            if isinstance(live, list):
                live[:] = saved
            else:
                live.clear()
                live.update(saved)
        for owner, name, cur in self.saved_slots:
            try:
                if cur is _SCALARS:
                    delattr(owner, name)
                else:
                    setattr(owner, name, cur)
            except Exception:
                pass
        return False


def global_token():
    """A cheap token of valida's module-level / class-level state: identities of
    the values bound to rebindable slots and sizes of module-level containers.
    A change between two pre-emption points means the running caller has just
    stored into process-wide state (used by the after-write strategy: that is
    the moment to let another caller run)."""
    global _PRISTINE
    if _PRISTINE is None:
        _PRISTINE = _collect()
    objs, _caches = _PRISTINE
    tok = [id(owner.__dict__.get(name)) for owner, name, _v in _SCALARS]
    tok.extend(len(live) for live, _p in objs)
    return tuple(tok)
