"""./check selftest setup|determinism   (not a property check)."""
import json
import os
import sys
import warnings


def setup():
    import valida
    import ruamel.yaml  # noqa: F401  (valida.schema needs it)

    from . import driver

    for pid in driver.PROPS:
        driver.load_prop(pid)
    print(f"setup ok: python {sys.version.split()[0]}, valida {valida.__version__} from {os.path.dirname(valida.__file__)}")
    return 0


def determinism(n=200, hashseeds=(1, 4242)):
    """Every claimed property: n seeds, each run twice in this process and once
    more in fresh interpreters under other PYTHONHASHSEEDs; event logs must be
    identical."""
    from . import driver
    from .common import run_seed

    warnings.simplefilter("ignore")
    bad = 0
    for pid in sorted(driver.PROPS):
        prop = driver.load_prop(pid)
        here = []
        for i in range(n):
            k1, r1 = driver.run_one(prop, run_seed(0, i))
            k2, r2 = driver.run_one(prop, run_seed(0, i))
            d1 = r1.event_digest if k1 == "ok" else k1
            d2 = r2.event_digest if k2 == "ok" else k2
            if d1 != d2:
                print(f"NONDETERMINISM {pid} seed index {i}: {d1} != {d2}")
                bad += 1
            here.append([i, d1 if k1 == "ok" else ("discard" if k1 == "discard" else "harness")])
        for hs in hashseeds:
            there = driver.fresh_digests(pid, 0, n, hs)
            if there != here:
                diff = [a for a, b in zip(here, there) if a != b][:5]
                print(f"NONDETERMINISM {pid} under PYTHONHASHSEED={hs}: first differences {diff}")
                bad += 1
        print(f"determinism {pid}: {n} seeds x (2 same-process + {len(hashseeds)} fresh interpreters): {'FAIL' if bad else 'ok'}")
    return 2 if bad else 0


def main(argv):
    what = argv[1] if len(argv) > 1 else "setup"
    if what == "setup":
        return setup()
    if what == "determinism":
        n = int(argv[2]) if len(argv) > 2 else 200
        return determinism(n)
    print("usage: ./check selftest setup|determinism [n]")
    return 2
