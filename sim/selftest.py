"""./check selftest setup|determinism   (not a property check)."""
import os
import sys
import warnings


def setup():
    import valida
    import ruamel.yaml  # noqa: F401  (valida.schema needs it)

    from . import driver

    for pid in driver.PROPS:
        driver.load_prop(pid)
    print(f"setup ok: python {sys.version.split()[0]}, valida {valida.__version__} from {os.path.dirname(valida.__file__)}")
    # the simulator itself, on a known bug (needs sys.settrace and sys.monitoring to behave)
    return engine_selftest(40)


def determinism(n=200, hashseeds=(1, 4242)):
    """Every claimed property: n seeds, each run twice in this process and once
    more in fresh interpreters under other PYTHONHASHSEEDs; event logs must be
    identical."""
    from . import driver
    from .common import run_seed

    warnings.simplefilter("ignore")
    bad = 0
    for pid in sorted(driver.PROPS):
        prop = driver.load_prop(pid)
        here = []
        for i in range(n):
            k1, r1 = driver.run_one(prop, run_seed(0, i))
            k2, r2 = driver.run_one(prop, run_seed(0, i))
            d1 = r1.event_digest if k1 == "ok" else k1
            d2 = r2.event_digest if k2 == "ok" else k2
            if d1 != d2:
                print(f"NONDETERMINISM {pid} seed index {i}: {d1} != {d2}")
                bad += 1
            here.append([i, d1 if k1 == "ok" else ("discard" if k1 == "discard" else "harness")])
        for hs in hashseeds:
            there = driver.fresh_digests(pid, 0, n, hs)
            if there != here:
                diff = [a for a, b in zip(here, there) if a != b][:5]
                print(f"NONDETERMINISM {pid} under PYTHONHASHSEED={hs}: first differences {diff}")
                bad += 1
        print(f"determinism {pid}: {n} seeds x (2 same-process + {len(hashseeds)} fresh interpreters): {'FAIL' if bad else 'ok'}")
    return 2 if bad else 0


def engine_selftest(n=300):
    """The simulator on a known bug: two callers deposit into one toy account
    (read-modify-write without a lock).  The lost update must be found by the
    seeded schedulers, the same seed must give the same event log, the recorded
    decisions must replay to the same final state, and an operation-boundary
    schedule must never lose an update."""
    import os
    from . import engine
    from .engine import Engine, Monitor, RandomStrategy, PCT, Scripted
    from .common import stream
    from .toy import racy

    toy_dir = os.path.dirname(os.path.abspath(racy.__file__)) + os.sep
    engine.TRACE_DIRS = (engine.VALIDA_DIR, toy_dir)
    try:
        class W:  # a minimal world
            pass

        def exec_op(world, op):
            if op[0] == "deposit":
                return ("ok", world.acct.deposit(op[1]))
            return ("ok", world.acct.audit())

        programs = [[("deposit", 1), ("deposit", 1), ("audit",)], [("deposit", 10), ("deposit", 10), ("audit",)]]
        lost = audits_failed = 0
        bad = 0
        for i in range(n):
            for gran in ("line", "opcode"):
                w = W()
                w.acct = racy.Account(0)
                r = stream(i, "sched")
                strat = RandomStrategy(r, 0.2) if i % 2 else PCT(r, 2, 2, 60)
                e = Engine(w, programs, exec_op, Monitor(), strat, mode="pre", granularity=gran)
                e.run()
                final = w.acct.balance
                audit_ok = all(o[1] is not False for o in e.outcomes.values())
                # same seed, same log
                w2 = W()
                w2.acct = racy.Account(0)
                r2 = stream(i, "sched")
                strat2 = RandomStrategy(r2, 0.2) if i % 2 else PCT(r2, 2, 2, 60)
                e2 = Engine(w2, programs, exec_op, Monitor(), strat2, mode="pre", granularity=gran)
                e2.run()
                if e2.event_digest() != e.event_digest():
                    print(f"engine selftest: seed {i} {gran}: NONDETERMINISM")
                    bad += 1
                # recorded decisions replay to the same state
                w3 = W()
                w3.acct = racy.Account(0)
                e3 = Engine(w3, programs, exec_op, Monitor(), Scripted(e.decisions), mode="pre", granularity=gran)
                e3.run()
                if w3.acct.balance != final or e3.event_digest() != e.event_digest():
                    print(f"engine selftest: seed {i} {gran}: replay diverged ({w3.acct.balance} != {final})")
                    bad += 1
                if final != 22:
                    lost += 1
                if not audit_ok:
                    audits_failed += 1
            # operation-boundary schedules never lose an update
            w4 = W()
            w4.acct = racy.Account(0)
            e4 = Engine(w4, programs, exec_op, Monitor(), RandomStrategy(stream(i, "op"), 0.5), mode="op")
            e4.run()
            if w4.acct.balance != 22:
                print(f"engine selftest: seed {i}: an operation-boundary schedule lost an update")
                bad += 1
        print(f"engine selftest: {2 * n} pre-emptive runs of a toy read-modify-write: lost update in {lost}, torn audit in {audits_failed}; "
              f"same-seed logs identical, recorded decisions replay exactly, {n} operation-boundary runs never lose an update: {'FAIL' if bad or not lost or not audits_failed else 'ok'}")
        return 2 if (bad or not lost or not audits_failed) else 0
    finally:
        engine.TRACE_DIRS = (engine.VALIDA_DIR,)


def main(argv):
    what = argv[1] if len(argv) > 1 else "setup"
    if what == "setup":
        return setup()
    if what == "determinism":
        n = int(argv[2]) if len(argv) > 2 else 200
        return determinism(n)
    if what == "engine":
        return engine_selftest(int(argv[2]) if len(argv) > 2 else 300)
    print("usage: ./check selftest setup|determinism [n]|engine [n]")
    return 2
