"""Batch driver: seeded search over simulated runs, minimisation, replay files,
known findings, evidence (DESIGN.md 4.11, 8).

Exit status: 0 = property held on everything explored (possibly with
KNOWN-FINDING lines); 1 = violation not listed in known_findings.json;
2 = harness error (never disguised as 0 or as a VIOLATION).
"""
import argparse
import concurrent.futures
import faulthandler
import importlib
import json
import multiprocessing
import os
import subprocess
import sys
import time
import traceback
import warnings

VERIF = os.path.dirname(os.path.dirname(os.path.abspath(__file__)))
REPO = os.environ.get("VERIF_REPO", "/repo")

PROPS = {
    "C02": "sim.props.c02",
    "C06": "sim.props.c06",
    "C08": "sim.props.c08",
    "C16": "sim.props.c16",
    "C18": "sim.props.c18",
}

# runs per tier are fixed numbers (so coverage does not depend on machine
# speed); cap_s only bounds the time spent *starting* runs.
TIERS = {
    "C02": {"quick": dict(runs=24_000, cap_s=150), "thorough": dict(runs=1_500_000, cap_s=2400)},
    "C06": {"quick": dict(runs=8_000, cap_s=150), "thorough": dict(runs=1_200_000, cap_s=2400)},
    "C08": {"quick": dict(runs=4_000, cap_s=200), "thorough": dict(runs=300_000, cap_s=2400)},
    "C16": {"quick": dict(runs=16_000, cap_s=150), "thorough": dict(runs=1_200_000, cap_s=2400)},
    "C18": {"quick": dict(runs=8_000, cap_s=150), "thorough": dict(runs=350_000, cap_s=2400)},
}
# pre-emptive runs hand a baton between real threads; the OS wake-up latency
# leaves cores idle, so C08 over-subscribes them.
WORKERS = {"C08": 2.5}
N_DETERMINISM = 16
CHUNK = 40
MAX_SIGNATURES = 6


def load_prop(pid):
    return importlib.import_module(PROPS[pid])


def _check_repo_import():
    import valida

    here = os.path.realpath(os.path.dirname(valida.__file__))
    want = os.path.realpath(os.path.join(REPO, "valida"))
    if here != want:
        raise SystemExit(f"HARNESS-ERROR valida imported from {here}, expected {want}")


def run_one(prop, seed):
    """Generate and run the case for one seed.  Returns (kind, payload)."""
    from .terms import BuildError
    from .engine import HarnessError, SimKill
    from . import isolation

    isolation.reset()
    try:
        case = prop.generate(seed)
        rep = prop.run(case)
        drift = isolation.reset()
        if drift:
            rep.stats["runs_that_changed_valida_module_state"] = 1
        return "ok", rep
    except BuildError as e:
        return "discard", str(e)[:200]
    except (HarnessError, SimKill) as e:
        return "harness", f"seed={seed}: {e!r}\n{traceback.format_exc()}"
    except Exception as e:
        return "harness", f"seed={seed}: {e!r}\n{traceback.format_exc()}"


def _worker(args):
    pid, verif_seed, start, stop, deadline, check_det, tier = args
    from . import common

    common.TIER = tier
    warnings.simplefilter("ignore")
    sys.setrecursionlimit(1000)
    prop = load_prop(pid)
    from .common import run_seed, merge_stats

    agg = {}
    failures = []
    harness = []
    discards = 0
    done = 0
    samples = []
    nontrivial = set()
    det = []
    for i in range(start, stop):
        if time.monotonic() > deadline:
            break
        seed = run_seed(verif_seed, i)
        faulthandler.dump_traceback_later(900, exit=True)
        try:
            kind, rep = run_one(prop, seed)
            if check_det and i < N_DETERMINISM:
                kind2, rep2 = run_one(prop, seed)
                d1 = _det_digest(kind, rep)
                d2 = _det_digest(kind2, rep2)
                if d1 != d2:
                    harness.append(f"seed={seed}: NONDETERMINISM same-process {d1} != {d2}")
                det.append((i, d1 if isinstance(d1, str) else "discard"))
        finally:
            faulthandler.cancel_dump_traceback_later()
        done += 1
        if kind == "discard":
            discards += 1
            continue
        if kind == "harness":
            harness.append(rep)
            continue
        merge_stats(agg, rep.stats)
        if rep.nontrivial_key is not None:
            nontrivial.add(rep.nontrivial_key)
        if i < 3:
            samples.append((i, prop.sample(rep.case)))
        if rep.violations:
            v = rep.violations[0]
            failures.append((i, seed, v["oracle"], v["locus"], _jsonable(v.get("detail"))))
    return dict(agg=agg, failures=failures, harness=harness, discards=discards, done=done, samples=samples, nontrivial=nontrivial, det=det)


def _det_digest(kind, rep):
    """Event-log digest used by the determinism self-check.  A run in which the
    engine had to take the baton from a caller blocked on a real lock (possible
    only against a valida that takes locks; wall-clock based, see
    engine._wait_for_run) is not expected to repeat exactly and says so."""
    if kind != "ok":
        return (kind, rep)
    if rep.stats.get("lock_stall_recoveries"):
        return "lock-stall (not deterministic by construction)"
    return rep.event_digest


def _jsonable(x):
    try:
        json.dumps(x)
        return x
    except TypeError:
        return repr(x)


# --------------------------------------------------------------------------
# known findings
# --------------------------------------------------------------------------


def load_known(pid):
    path = os.path.join(VERIF, "known_findings.json")
    if not os.path.exists(path):
        return []
    with open(path) as fh:
        data = json.load(fh)
    return [f for f in data.get("findings", []) if f.get("property") == pid and f.get("status") == "known"]


def match_known(known, oracle, locus):
    for f in known:
        if f.get("oracle") == oracle and f.get("locus") == locus:
            return f
    return None


# --------------------------------------------------------------------------
# replay files
# --------------------------------------------------------------------------


def write_replay(pid, case, sig, violation, extra=None):
    from .terms import enc
    from .common import digest

    d = os.path.join(os.environ.get("VERIF_REPLAY_DIR") or os.path.join(VERIF, "replays"), pid)
    os.makedirs(d, exist_ok=True)
    name = f"{digest(sig, 10)}-{case.get('seed', 0)}.json"
    path = os.path.join(d, name)
    body = {
        "property": pid,
        "seed": case.get("seed"),
        "signature": {"oracle": sig[0], "locus": sig[1]},
        "first_violation": _jsonable(enc_safe(violation)),
        "case": enc(case),
    }
    if extra:
        body.update(extra)
    with open(path, "w") as fh:
        json.dump(body, fh, indent=1)
    return path


def enc_safe(x):
    from .terms import enc

    try:
        return enc(x)
    except TypeError:
        return repr(x)


def read_replay(path):
    from .terms import dec

    with open(path) as fh:
        body = json.load(fh)
    return body, dec(body["case"])


def replay(pid, path, quiet=False):
    warnings.simplefilter("ignore")
    prop = load_prop(pid)
    body, case = read_replay(path)
    want = (body["signature"]["oracle"], body["signature"]["locus"])
    from . import isolation

    isolation.reset()
    rep = prop.run(case)
    got = rep.signature
    if not quiet:
        print(f"replay {path}: expected {want}, got {got}; event digest {rep.event_digest}")
        if rep.violations:
            print(json.dumps(_jsonable(enc_safe(rep.violations[0])), indent=1)[:4000])
    if got == want:
        print(f"VIOLATION property={pid} replay={path}")
        return 1
    if got is not None:
        print(f"replay {path}: a different violation was found: {got}")
        print(f"VIOLATION property={pid} replay={path}")
        return 1
    print(f"replay {path}: no violation on the current tree")
    return 0


# --------------------------------------------------------------------------
# main check
# --------------------------------------------------------------------------


def fresh_digests(pid, verif_seed, n, hashseed, tier="quick"):
    env = dict(os.environ)
    env["PYTHONHASHSEED"] = str(hashseed)
    env["VERIF_REEXEC"] = "1"
    out = subprocess.run(
        [sys.executable, "-m", "sim", pid, "--digests", str(n), "--seed", str(verif_seed), "--tier", tier],
        cwd=VERIF,
        env=env,
        capture_output=True,
        text=True,
        timeout=600,
    )
    if out.returncode != 0:
        raise RuntimeError(f"digest subprocess failed: {out.stdout[-2000:]}\n{out.stderr[-2000:]}")
    line = [l for l in out.stdout.splitlines() if l.startswith("DIGESTS ")][-1]
    return json.loads(line[len("DIGESTS ") :])


def print_digests(pid, verif_seed, n):
    warnings.simplefilter("ignore")
    prop = load_prop(pid)
    from .common import run_seed

    out = []
    for i in range(n):
        kind, rep = run_one(prop, run_seed(verif_seed, i))
        d = _det_digest(kind, rep)
        out.append([i, d if isinstance(d, str) else ("discard" if kind == "discard" else "harness")])
    print("DIGESTS " + json.dumps(out))
    return 0


def check(pid, tier, verif_seed, runs=None, workers=None, cap_s=None, minimise_s=45.0):
    from .common import merge_stats, run_seed
    from .minimise import minimise

    from . import common

    common.TIER = tier
    t0 = time.monotonic()
    cfg = dict(TIERS[pid][tier])
    if runs is not None:
        cfg["runs"] = runs
    if cap_s is not None:
        cfg["cap_s"] = cap_s
    workers = workers or WORKERS.get(pid, 1.0) * (os.cpu_count() or 1)
    workers = max(1, int(workers))
    prop = load_prop(pid)
    print(f"SEED VERIF_SEED={verif_seed} property={pid} tier={tier} runs={cfg['runs']} workers={workers} repo={REPO}")
    sys.stdout.flush()

    # regression replays: histories that exposed defects which have been fixed
    regress_lines = []
    n_regress = 0
    rdir = os.path.join(VERIF, "regressions", pid)
    if os.path.isdir(rdir):
        for name in sorted(os.listdir(rdir)):
            if name.endswith(".json"):
                n_regress += 1
                path = os.path.join(rdir, name)
                _body, rcase = read_replay(path)
                from . import isolation

                isolation.reset()
                rrep = prop.run(rcase)
                if rrep.signature is not None:
                    print(f"  regression replay {name} fails again: {rrep.signature}")
                    regress_lines.append(f"VIOLATION property={pid} replay={path}")

    deadline = t0 + cfg["cap_s"]
    chunks = []
    for s in range(0, cfg["runs"], CHUNK):
        chunks.append((pid, verif_seed, s, min(s + CHUNK, cfg["runs"]), deadline, True, tier))
    agg, failures, harness, samples = {}, [], [], []
    nontrivial = set()
    discards = done = 0
    det = []
    ctx = multiprocessing.get_context("fork")
    try:
        with concurrent.futures.ProcessPoolExecutor(max_workers=workers, mp_context=ctx) as ex:
            for res in ex.map(_worker, chunks):
                merge_stats(agg, res["agg"])
                failures.extend(res["failures"])
                harness.extend(res["harness"])
                discards += res["discards"]
                done += res["done"]
                samples.extend(res["samples"])
                nontrivial |= res["nontrivial"]
                det.extend(res["det"])
    except concurrent.futures.process.BrokenProcessPool as e:
        harness.append(f"worker died: {e!r}")
    t_batch = time.monotonic() - t0

    # determinism: fresh interpreter, another hash seed
    try:
        want = [[i, d] for i, d in sorted(det)]
        got = fresh_digests(pid, verif_seed, len(want), 4242, tier)
        if want != got:
            harness.append(f"NONDETERMINISM across interpreters/hash seeds: {want} != {got}")
    except Exception as e:
        harness.append(f"determinism self-check could not run: {e!r}")

    # violations: group by signature, minimise, write replay, verify replay
    known = load_known(pid)
    by_sig = {}
    for i, seed, oracle, locus, detail in sorted(failures):
        by_sig.setdefault((oracle, locus), []).append((i, seed, detail))
    new_violation_lines = []
    known_lines = []
    reported = []
    for n_sig, (sig, lst) in enumerate(sorted(by_sig.items(), key=lambda kv: kv[1][0][0])):
        i, seed, detail = lst[0]
        kf = match_known(known, *sig)
        from . import isolation

        isolation.reset()
        case = prop.generate(seed)
        rep = prop.run(case)
        if rep.signature != sig:
            harness.append(f"seed={seed}: failure did not reproduce in the parent process ({sig} vs {rep.signature})")
            continue
        case = rep.case
        tests = 0
        if n_sig < MAX_SIGNATURES:

            def same(c, _sig=sig):
                from . import isolation

                isolation.reset()
                r = prop.run(c)
                return r.signature == _sig

            try:
                case, tests = minimise(case, same, seconds=minimise_s, op_variants=getattr(prop, "op_variants", None))
            except Exception as e:  # keep the un-minimised case
                harness.append(f"minimiser failed for {sig}: {e!r}")
        isolation.reset()
        final = prop.run(case)
        if final.signature != sig:
            # the minimised case does not reproduce reliably (a change to valida
            # with state the harness cannot reset): fall back to the case as found
            isolation.reset()
            final = prop.run(rep.case)
            tests = -tests
            if final.signature != sig:
                harness.append(f"seed={seed}: {sig} reproduced once in the parent process but not a second time (state outside the harness's control)")
                continue
        path = write_replay(
            pid,
            final.case,
            sig,
            final.violations[0],
            extra={"found_by_seed_index": i, "occurrences_in_batch": len(lst), "minimiser_tests": tests},
        )
        # replay in a fresh process must reproduce the same signature
        pr = subprocess.run(
            [sys.executable, "-m", "sim", pid, "--replay", path, "--quiet"],
            cwd=VERIF,
            capture_output=True,
            text=True,
            timeout=600,
            env=dict(os.environ, VERIF_REEXEC="1", PYTHONHASHSEED="7"),
        )
        if pr.returncode != 1 or f"replay={path}" not in pr.stdout:
            harness.append(f"replay of {path} did not reproduce in a fresh process: rc={pr.returncode} {pr.stdout[-500:]} {pr.stderr[-500:]}")
            continue
        reported.append({"oracle": sig[0], "locus": sig[1], "replay": path, "occurrences": len(lst), "known": bool(kf)})
        if kf:
            known_lines.append(f"KNOWN-FINDING: property={pid} {kf.get('what', sig)} [{sig[0]} @ {sig[1]}] replay={path}")
        else:
            new_violation_lines.append(f"VIOLATION property={pid} replay={path}")
            print(f"  violation: oracle={sig[0]} locus={sig[1]} occurrences={len(lst)} first_seed_index={i}")

    wall = time.monotonic() - t0
    evaluations = done - discards
    sets = {k[4:]: len(v) for k, v in agg.items() if k.startswith("set:")}
    counters = {k: v for k, v in agg.items() if not k.startswith("set:")}
    info = prop.evidence_info() if hasattr(prop, "evidence_info") else {}
    coverage = {
        "evaluations": int(evaluations),
        "distinct_nontrivial": int(len(nontrivial)),
        "rule": info.get("rule", ""),
        "samples": [s for _i, s in sorted(samples, key=lambda x: x[0])][:3] or [],
        "runs_requested": cfg["runs"],
        "runs_started": done,
        "discarded_worlds": discards,
        "seed_first": run_seed(verif_seed, 0),
        "seed_last": run_seed(verif_seed, max(done - 1, 0)),
        "simulated_runs_per_hour": int(evaluations / max(t_batch, 1e-6) * 3600),
        "seeds_per_hour": int(done / max(t_batch, 1e-6) * 3600),
        "logical_time_steps": counters.get("steps", 0),
        "simulated_time_note": "valida has no clock; logical time = scheduler steps (pre-emption points / operation boundaries)",
        "distinct": sets,
        "counters": counters,
        "faults_fired": counters.get("faults_fired", {}),
        "components": info.get("components", {}),
        "determinism_selfcheck": {"seeds": len(det), "same_process_twice": True, "fresh_interpreter_other_hashseed": True, "ok": not any("NONDETERMINISM" in h for h in harness)},
        "violations_reported": reported,
        "regression_replays_run": n_regress,
        "regression_replays_failing": len(regress_lines),
        "harness_errors": len(harness),
        "exhaustive": False,
    }
    from .terms import enc

    coverage["samples"] = [enc(s) for s in coverage["samples"]]
    evidence = {
        "property_id": pid,
        "tier": tier,
        "seed": int(verif_seed),
        "level": "exploration",
        "coverage": coverage,
        "assumptions": info.get("assumptions", []),
        "wall_s": round(wall, 2),
        "violations": len(new_violation_lines) + len(regress_lines),
    }
    evdir = os.environ.get("VERIF_EVIDENCE_DIR") or os.path.join(VERIF, "evidence")
    os.makedirs(evdir, exist_ok=True)
    with open(os.path.join(evdir, f"{pid}.json"), "w") as fh:
        json.dump(evidence, fh, indent=1, sort_keys=True)

    print(
        f"SUMMARY property={pid} tier={tier} runs={evaluations} discarded={discards} nontrivial_distinct={len(nontrivial)} "
        f"wall={wall:.1f}s runs_per_hour={coverage['simulated_runs_per_hour']} signatures={len(by_sig)}"
    )
    for line in known_lines:
        print(line)
    if done and discards > 0.5 * done:
        harness.append(f"{discards} of {done} generated worlds were discarded (could not be built / do not terminate on fresh objects): the batch says nothing")
    if harness:
        for h in harness[:10]:
            print("HARNESS-ERROR " + h.replace("\n", "\n    "))
        return 2
    if done < cfg["runs"]:
        print(f"NOTE only {done} of {cfg['runs']} runs were started before the time cap")
    for line in regress_lines + new_violation_lines:
        print(line)
    return 1 if (new_violation_lines or regress_lines) else 0


def main(argv=None):
    ap = argparse.ArgumentParser(prog="check")
    ap.add_argument("property")
    ap.add_argument("what", nargs="*")
    ap.add_argument("--tier", default=os.environ.get("VERIF_TIER", "quick"), choices=["quick", "thorough"])
    ap.add_argument("--seed", type=int, default=int(os.environ.get("VERIF_SEED", "0") or 0))
    ap.add_argument("--runs", type=int)
    ap.add_argument("--workers", type=int)
    ap.add_argument("--cap", type=float)
    ap.add_argument("--replay")
    ap.add_argument("--quiet", action="store_true")
    ap.add_argument("--digests", type=int)
    ap.add_argument("--one", type=int, help="run the single case of this seed index verbosely")
    args = ap.parse_args(argv)

    # one fixed hash seed for the whole process tree (DESIGN 4.2)
    if os.environ.get("PYTHONHASHSEED") is None and not os.environ.get("VERIF_REEXEC"):
        env = dict(os.environ, PYTHONHASHSEED="0", VERIF_REEXEC="1")
        os.execve(sys.executable, [sys.executable, "-m", "sim"] + (argv or sys.argv[1:]), env)

    warnings.simplefilter("ignore")
    _check_repo_import()
    if args.property == "selftest":
        from . import selftest

        return selftest.main([args.property] + args.what)
    pid = args.property
    if pid not in PROPS:
        print(f"unknown property {pid}; claimed: {sorted(PROPS)}")
        return 2
    try:
        if args.replay:
            return replay(pid, args.replay, quiet=args.quiet)
        from . import common

        common.TIER = args.tier
        if args.digests is not None:
            return print_digests(pid, args.seed, args.digests)
        if args.one is not None:
            from .common import run_seed

            prop = load_prop(pid)
            kind, rep = run_one(prop, run_seed(args.seed, args.one))
            print(kind)
            if kind == "ok":
                print(json.dumps(_jsonable(enc_safe(rep.violations)), indent=1)[:6000])
                print(rep.stats)
            else:
                print(rep)
            return 0
        return check(pid, args.tier, args.seed, runs=args.runs, workers=args.workers, cap_s=args.cap)
    except SystemExit:
        raise
    except BaseException:
        print("HARNESS-ERROR " + traceback.format_exc().replace("\n", "\n    "))
        return 2
