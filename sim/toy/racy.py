"""A deliberately racy toy (NOT part of valida): used only by
`./check selftest engine` to show that the simulator's scheduler, monitors and
replay work on a known bug, independently of the code under test."""


class Account:
    def __init__(self, balance):
        self.balance = balance
        self.log = []

    def deposit(self, amount):
        current = self.balance  # read
        new = current + amount  # modify
        self.balance = new  # write: a pre-emption between read and write loses an update
        return new

    def audit(self):
        before = self.balance
        total = 0
        for x in (1, 2, 3):
            total += x
        after = self.balance
        return before == after  # false if someone deposited in between
