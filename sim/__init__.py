"""Deterministic simulation harness for hpcflow/valida (see /verif/DESIGN.md)."""
