"""Operations callers issue against a world, and canonical outcomes
(DESIGN.md 4.4).  Everything goes through valida's public API.

An outcome is ``("ok", canon)``, ``("raise", ExceptionTypeName)`` (or
``("aborted",)``, produced by the engine).  `canon` is type exact and contains
no addresses, no default reprs and no set iteration.
"""
from valida.data import Data

from .terms import snap


def canon_fd(fd):
    return (
        "fd",
        tuple(fd.result),
        snap(fd.data),
        snap(fd.keys),
        tuple(fd.failure_indices),
        snap(fd.get_all_failures()),
    )


def canon_rt(rt):
    return (
        "rt",
        rt.tested,
        rt.is_valid,
        rt.num_failures,
        tuple((f.index, snap(f.value), snap(f.path), snap(f.reasons)) for f in rt.failures),
        snap(rt.get_failures_string()),
    )


def canon_vd(vd):
    try:
        frac = ("ok", snap(vd.frac_rules_tested))
    except ZeroDivisionError:
        frac = ("raise", "ZeroDivisionError")
    return (
        "vd",
        vd.is_valid,
        vd.num_failures,
        vd.num_rules_tested,
        frac,
        tuple(canon_rt(rt) for rt in vd.rule_tests),
        snap(vd.get_failures_string()),
        snap(vd.cast_data),
    )


def _keep(world, obj, fn):
    """Canonical outcome now; the result object is kept (shared world only) so
    that the run can check at its end that it still reads the same - a result
    that aliases shared state changes when a later operation runs."""
    c = fn(obj)
    kept = getattr(world, "kept", None)
    if kept is not None:
        kept.append((obj, fn, c))
    return c


def _doc(world, di, how):
    if how == "shared_data":
        return world.get("datas", di)
    d = world.get("docs", di)
    if how == "data":
        return Data(d)
    return d


def do_filter(world, op):
    _, ci, di, how = op
    cond = world.get("conds", ci)
    if how == "test_all":
        return ("bool", cond.test_all(world.get("docs", di)))
    if how == "data.filter":
        return _keep(world, Data(world.get("docs", di)).filter(cond), canon_fd)
    return _keep(world, cond.filter(_doc(world, di, how)), canon_fd)


def do_get(world, op):
    _, pi, di, rp, how = op
    path = world.get("paths", pi)
    if how == "data.get":
        return snap(Data(world.get("docs", di)).get(path, return_paths=rp))
    if how == "data.get_parts":
        # Data.get(*primitive parts): the path object is built inside the call
        parts = [pt[1] for pt in world.term["paths"][pi][1]]
        return snap(Data(world.get("docs", di)).get(*parts, return_paths=rp))
    if how == "shared_data.get":
        return snap(world.get("datas", di).get(path, return_paths=rp))
    return snap(path.get_data(_doc(world, di, how), return_paths=rp))


def do_part_filter(world, op):
    _, qi, di, how = op
    return _keep(world, world.get("parts", qi).filter(_doc(world, di, how)), canon_fd)


def do_test(world, op):
    _, ri, di, how = op
    return _keep(world, world.get("rules", ri).test(_doc(world, di, how)), canon_rt)


def do_validate(world, op):
    _, si, di, how = op
    return _keep(world, world.get("schemas", si).validate(_doc(world, di, how)), canon_vd)


READ_OPS = {
    "filter": do_filter,
    "get": do_get,
    "part_filter": do_part_filter,
    "test": do_test,
    "validate": do_validate,
}


def make_exec(table):
    def exec_op(world, op):
        try:
            return ("ok", table[op[0]](world, op))
        except Exception as e:  # not BaseException: SimAbort / SimKill pass through
            return ("raise", type(e).__name__)

    return exec_op


exec_read_op = make_exec(READ_OPS)
