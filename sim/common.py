"""Shared plumbing: seed derivation, named PRNG streams, run reports."""
import hashlib
import random

MOD = 2**63

# set by the driver before any case is generated; "thorough" lets a seeded half
# of the runs use larger worlds (more callers, longer programs, deeper documents)
TIER = "quick"


def big(rng):
    """True for the runs of the thorough tier that use larger bounds."""
    return TIER == "thorough" and rng.random() < 0.5


def run_seed(verif_seed, i):
    return (int(verif_seed) * 1_000_003 + int(i)) % MOD


def stream(seed, name):
    """Independent PRNG stream derived by name from one integer."""
    h = hashlib.sha256(f"{seed}/{name}".encode()).digest()
    return random.Random(int.from_bytes(h[:8], "big"))


def digest(x, n=16):
    return hashlib.sha256(repr(x).encode()).hexdigest()[:n]


class Report:
    """What one simulated run produced."""

    __slots__ = ("violations", "stats", "event_digest", "case", "nontrivial_key", "sample")

    def __init__(self, violations, stats, event_digest, case=None, nontrivial_key=None, sample=None):
        self.violations = violations  # list of dicts with oracle, locus, detail
        self.stats = stats  # flat dict of counters (ints) / {"set:<name>": set(...)}
        self.event_digest = event_digest
        self.case = case  # the case as actually run (with recorded decisions)
        self.nontrivial_key = nontrivial_key  # hashable or None
        self.sample = sample

    @property
    def signature(self):
        if not self.violations:
            return None
        v = self.violations[0]
        return (v["oracle"], v["locus"])


def merge_stats(into, stats):
    for k, v in stats.items():
        if isinstance(v, set):
            into.setdefault(k, set()).update(v)
        elif isinstance(v, dict):
            d = into.setdefault(k, {})
            for kk, vv in v.items():
                d[kk] = d.get(kk, 0) + vv
        else:
            into[k] = into.get(k, 0) + v
    return into


def order_to_decisions(order):
    """An interleaving given as the list of callers in execution order ->
    scripted decisions for the op-boundary engine (step s = after s ops)."""
    dec = []
    cur = -1
    for s, c in enumerate(order):
        if c != cur:
            dec.append((s, cur, c))
            cur = c
    return dec
