"""Seeded world generation (DESIGN.md 4.3): documents first, then paths derived
from documents, conditions whose arguments are drawn from values occurring in
the documents, rules, schemas.  Everything produced is a *term* (sim.terms).

All randomness comes from the `random.Random` handed in; nothing here reads a
clock, iterates a set or depends on hash order.
"""
import copy

STRS = ["", "a", "b", "c", "1", "3", "12", "-2", "true", "False", "abc", "x y", "1.5", "path"]
INTS = [0, 1, 2, 3, -1, -7, 10, 255]
FLOATS = [0.0, 1.5, -2.25, 3.0, 1e-9]
KEYS = ["a", "b", "c", "d", "k1", "1", "", 0, 1, 2, -1, 1.5, 2.0, True, False, None, "path", "x.y"]
TYPE_NAMES = ["int", "float", "str", "list", "dict", "bool", "NoneType"]

GENERAL_1 = [
    "equal_to",
    "not_equal_to",
    "less_than",
    "greater_than",
    "less_than_or_equal_to",
    "greater_than_or_equal_to",
]
MAP_STAR = [
    "keys_contain_any_of",
    "keys_contain_all_of",
    "keys_contain_one_of",
    "keys_equal_to",
    "allowed_keys",
    "required_keys",
    "forbidden_keys",
]
MAP_N = ["keys_contain_N_of", "keys_contain_at_least_N_of", "keys_contain_at_most_N_of"]
MAP_L = ["keys_contain_at_least_one_of", "keys_contain_at_most_one_of"]


def default_knobs(rng, **over):
    """Swarm configuration: no run has everything switched on."""
    k = {
        "depth": rng.choice([1, 2, 2, 3, 3, 4]),
        "width": rng.choice([1, 2, 3, 3, 4]),
        "nonstr_keys": rng.random() < 0.5,
        "floats": rng.random() < 0.6,
        "casts": rng.random() < 0.6,
        "path_args": rng.random() < 0.6,
        "from_str": rng.random() < 0.4,
        "mol_parts": rng.random() < 0.7,
        "compound_part_conds": rng.random() < 0.6,
        "modifiers": rng.random() < 0.5,
        "map_callables": rng.random() < 0.7,
        "risky_callables": rng.random() < 0.25,  # factor_of / has_factor / not_in_range
        "key_kind_rules": rng.random() < 0.1,
        "p_generalise": rng.choice([0.0, 0.2, 0.4, 0.7]),
        "p_blind_path": rng.choice([0.0, 0.1, 0.3]),
        "cond_depth": rng.choice([0, 1, 2, 3, 4]),
        "p_null": rng.choice([0.0, 0.1, 0.3]),
        "bound_paths": rng.random() < 0.3,
    }
    k.update(over)
    return k


_NOVAL = object()


class Gen:
    def __init__(self, rng, knobs):
        self.r = rng
        self.k = knobs

    # ------------------------------------------------------------------
    # documents
    # ------------------------------------------------------------------
    def scalar(self):
        r = self.r
        c = r.random()
        if c < 0.3:
            return r.choice(INTS)
        if c < 0.55:
            return r.choice(STRS)
        if c < 0.7 and self.k["floats"]:
            return r.choice(FLOATS)
        if c < 0.85:
            return r.choice([True, False])
        if c < 0.93:
            return None
        return r.choice(INTS)

    def key(self):
        r = self.r
        if self.k["nonstr_keys"] and r.random() < 0.35:
            return r.choice(KEYS)
        return r.choice(["a", "b", "c", "d", "k1", "1", "", "x.y"])

    def value(self, depth):
        r = self.r
        if depth <= 0 or r.random() < 0.35:
            if self.k.get("casts") and r.random() < 0.3:
                return r.choice(["true", "false", "True", "3", "12", "-2", "abc", "0"])
            return self.scalar()
        return self.container(depth)

    def container(self, depth, nonempty=False):
        r = self.r
        n = r.randint(1 if nonempty else 0, self.k["width"])
        if r.random() < 0.5:
            return [self.value(depth - 1) for _ in range(n)]
        d = {}
        for _ in range(n):
            d[self.key()] = self.value(depth - 1)
        if nonempty and not d:
            d["a"] = self.scalar()
        return d

    def top_doc(self):
        return self.container(self.k["depth"], nonempty=True)

    def variant(self, doc):
        """A mutated copy of `doc`: same shape mostly, some values changed, so
        that one schema legitimately gives different answers on the two."""
        r = self.r
        doc = copy.deepcopy(doc)
        nodes = [n for n in iter_nodes(doc) if n[0]]
        if not nodes:
            return doc
        for _ in range(r.randint(1, 3)):
            path, _v = r.choice(nodes)
            parent = get_at(doc, path[:-1])
            if parent is None:
                continue
            k = path[-1]
            try:
                c = r.random()
                if c < 0.6:
                    parent[k] = self.value(1)
                elif c < 0.8 and isinstance(parent, dict) and len(parent) > 1:
                    del parent[k]
                elif c < 0.9 and isinstance(parent, list):
                    parent.append(self.scalar())
                else:
                    parent[k] = self.value(2)
            except (KeyError, IndexError, TypeError):
                pass
        if not doc:
            return self.top_doc()
        return doc

    # ------------------------------------------------------------------
    # context: values / keys that occur in the documents
    # ------------------------------------------------------------------
    def context(self, docs):
        vals, keys, lens = [], [], []
        for d in docs:
            for path, v in iter_nodes(d):
                if isinstance(v, (dict, list)):
                    lens.append(len(v))
                    if isinstance(v, dict):
                        keys.extend(v.keys())
                else:
                    vals.append(v)
        return {
            "vals": vals or [0],
            "keys": keys or ["a"],
            "lens": lens or [0],
            "docs": docs,
        }

    def near(self, ctx):
        """A scalar that occurs in the documents, or a near miss."""
        r = self.r
        c = r.random()
        if c < 0.6:
            return r.choice(ctx["vals"])
        if c < 0.8:
            v = r.choice(ctx["vals"])
            if isinstance(v, bool):
                return not v
            if isinstance(v, (int, float)):
                return v + r.choice([-1, 1])
            if isinstance(v, str):
                return v + "x"
            return 0
        return self.scalar()

    def some_keys(self, ctx, lo=0, hi=3):
        r = self.r
        n = r.randint(lo, hi)
        out = []
        for _ in range(n):
            out.append(r.choice(ctx["keys"]) if r.random() < 0.7 else self.key())
        return out

    # ------------------------------------------------------------------
    # conditions
    # ------------------------------------------------------------------
    def maybe_path_arg(self, ctx, literal):
        """With some probability replace a literal argument by a data path."""
        if self.k["path_args"] and self.r.random() < 0.3:
            return ("path", self.path_from_docs(ctx, allow_mods=True, for_arg=True))
        return ("v", literal)

    def value_leaf(self, ctx):
        r = self.r
        c = r.random()
        if c < 0.15:
            # Value.dtype
            m = r.choice(["equal_to", "equal_to", "in_", "not_equal_to"])
            if m == "in_":
                return ("leaf", "Value.dtype", m, (("tyl", tuple(r.sample(TYPE_NAMES, r.randint(1, 3)))),), ())
            return ("leaf", "Value.dtype", m, (("ty", r.choice(TYPE_NAMES)),), ())
        if c < 0.3:
            m = r.choice(["equal_to", "less_than", "greater_than", "in_", "not_equal_to", "in_range"])
            n = r.choice(ctx["lens"] + [0, 1, 2])
            if m == "in_":
                return ("leaf", "Value.length", m, (("v", [n, r.randint(0, 3)]),), ())
            if m == "in_range":
                return ("leaf", "Value.length", m, (("v", n), ("v", n + r.randint(0, 3))), ())
            return ("leaf", "Value.length", m, (self.maybe_path_arg(ctx, n),), ())
        if c < 0.5 and self.k["map_callables"]:
            return self.map_leaf("Value", ctx)
        return self.general_leaf("Value", ctx)

    def general_leaf(self, cls, ctx, pool=None):
        r = self.r
        draw = (lambda: r.choice(pool)) if pool else (lambda: self.near(ctx))
        c = r.random()
        if c < 0.5:
            return ("leaf", cls, r.choice(GENERAL_1), (self.maybe_path_arg(ctx, draw()),), ())
        if c < 0.65:
            vals = [draw() for _ in range(r.randint(0, 4))]
            if self.k["path_args"] and r.random() < 0.2:
                # a path inside a list argument
                return (
                    "leaf",
                    cls,
                    "in_",
                    (("lv", tuple([("v", v) for v in vals] + [("path", self.path_from_docs(ctx, for_arg=True))])),),
                    (),
                )
            return ("leaf", cls, r.choice(["in_", "not_in"]), (("v", vals),), ())
        if c < 0.72:
            lo = r.randint(-2, 3)
            return ("leaf", cls, "in_range", (("v", lo), ("v", lo + r.randint(0, 4))), ())
        if c < 0.8:
            return ("leaf", cls, r.choice(["truthy", "falsy", "null"]), (), ())
        if c < 0.9:
            return ("leaf", cls, "is_instance", tuple(("ty", n) for n in r.sample(TYPE_NAMES, r.randint(1, 3))), ())
        if c < 0.95:
            v = draw()
            if r.random() < 0.5:
                return ("leaf", cls, "equal_to_approx", (("v", v),), ())
            return ("leaf", cls, "equal_to_approx", (("v", v), ("v", r.choice([0.5, 1e-8, 2]))), ())
        if self.k["risky_callables"]:
            m = r.choice(["factor_of", "has_factor", "not_in_range"])
            return ("leaf", cls, m, (("v", r.choice([1, 2, 3, 0, 12])),), ())
        return ("leaf", cls, "equal_to", (("v", draw()),), ())

    def map_leaf(self, cls, ctx):
        r = self.r
        c = r.random()
        if c < 0.15:
            return ("leaf", cls, "keys_contain", (("v", r.choice(ctx["keys"])),), ())
        if c < 0.55:
            return ("leaf", cls, r.choice(MAP_STAR), tuple(("v", k) for k in self.some_keys(ctx)), ())
        if c < 0.7:
            return ("leaf", cls, r.choice(MAP_N), (("v", r.randint(0, 2)), ("v", self.some_keys(ctx))), ())
        if c < 0.8:
            return ("leaf", cls, r.choice(MAP_L), (("v", self.some_keys(ctx)),), ())
        if c < 0.9:
            return ("leaf", cls, "keys_is_instance", tuple(("ty", n) for n in r.sample(TYPE_NAMES, r.randint(1, 2))), ())
        items = tuple(
            (k, ("v", self.near(ctx))) for k in dict.fromkeys(k for k in self.some_keys(ctx, 1, 2) if isinstance(k, str) and k.isidentifier())
        )
        return ("leaf", cls, "items_contain", (), items)

    def key_leaf(self, ctx, keys=None):
        r = self.r
        keys = list(keys) if keys else ctx["keys"]
        c = r.random()
        if c < 0.12:
            return ("leaf", "Key.dtype", "equal_to", (("ty", r.choice(["str", "int", "float", "bool", "NoneType"])),), ())
        if c < 0.22:
            return ("leaf", "Key.length", r.choice(["equal_to", "less_than", "greater_than"]), (("v", r.randint(0, 3)),), ())
        if c < 0.5:
            return ("leaf", "Key", "equal_to", (("v", r.choice(keys)),), ())
        if c < 0.7:
            return ("leaf", "Key", r.choice(["in_", "not_in"]), (("v", [r.choice(keys) for _ in range(r.randint(0, 3))]),), ())
        return self.general_leaf("Key", ctx, pool=keys + ["a", 0])

    def index_leaf(self, n):
        r = self.r
        c = r.random()
        hi = max(n, 1)
        if c < 0.35:
            return ("leaf", "Index", "equal_to", (("v", r.randint(0, hi)),), ())
        if c < 0.55:
            return ("leaf", "Index", r.choice(["in_", "not_in"]), (("v", [r.randint(0, hi) for _ in range(r.randint(0, 3))]),), ())
        if c < 0.8:
            return ("leaf", "Index", r.choice(GENERAL_1), (("v", r.randint(-1, hi)),), ())
        if c < 0.9:
            lo = r.randint(0, hi)
            return ("leaf", "Index", "in_range", (("v", lo), ("v", lo + r.randint(0, 3))), ())
        if self.k["risky_callables"]:
            return ("leaf", "Index", r.choice(["has_factor", "factor_of"]), (("v", r.choice([1, 2, 3])),), ())
        return ("leaf", "Index", "truthy", (), ())

    def tree(self, leaf, depth=None, p_null=None):
        """A condition tree over leaves produced by `leaf()`."""
        r = self.r
        depth = self.k["cond_depth"] if depth is None else depth
        p_null = self.k["p_null"] if p_null is None else p_null
        if r.random() < p_null:
            return ("null",)
        if depth <= 0 or r.random() < 0.4:
            return leaf()
        op = r.choice(["and", "or", "xor"])
        return (op, self.tree(leaf, depth - 1, p_null), self.tree(leaf, depth - 1, p_null))

    def value_tree(self, ctx, depth=None):
        return self.tree(lambda: self.value_leaf(ctx), depth)

    # ------------------------------------------------------------------
    # parts and paths
    # ------------------------------------------------------------------
    def general_part(self, ctx, container, k):
        """A non-concrete part that (usually) still selects child `k` of `container`."""
        r = self.r
        cd = min(self.k["cond_depth"], 2) if self.k["compound_part_conds"] else 0
        kw = []
        if isinstance(container, list):
            n = len(container)
            c = r.random()
            use_mol = self.k["mol_parts"] and r.random() < 0.5
            if c < 0.3:
                pass  # bare ListValue(): all items
            elif c < 0.5:
                kw.append(("index", ("v", k)))
            elif c < 0.7:
                kw.append(("index" if not use_mol or cd == 0 else "list_condition", self.tree(lambda: self.index_leaf(n), cd, 0.0)))
            if r.random() < 0.35:
                kw.append(("value" if r.random() < 0.6 else "condition", self.tree(lambda: self.value_leaf(ctx), cd, 0.0)))
            if use_mol:
                if r.random() < 0.3:
                    kw.append(("map_condition" if r.random() < 0.5 else "key", self.tree(lambda: self.key_leaf(ctx), cd, 0.0)))
                return ("mol", tuple(kw))
            return ("list", tuple(kw))
        keys = list(container.keys())
        c = r.random()
        use_mol = self.k["mol_parts"] and r.random() < 0.4
        if c < 0.3:
            pass
        elif c < 0.5 and k is not None:
            kw.append(("key", ("v", k)))
        elif c < 0.75:
            kw.append(("key" if not use_mol or cd == 0 else "map_condition", self.tree(lambda: self.key_leaf(ctx, keys), cd, 0.0)))
        if r.random() < 0.35:
            kw.append(("value" if r.random() < 0.6 else "condition", self.tree(lambda: self.value_leaf(ctx), cd, 0.0)))
        if use_mol:
            if r.random() < 0.3:
                kw.append(("list_condition" if r.random() < 0.5 else "index", self.tree(lambda: self.index_leaf(3), cd, 0.0)))
            return ("mol", tuple(kw))
        return ("map", tuple(kw))

    def concrete_part(self, k):
        if isinstance(k, (str, float, int)) and k is not None:
            return ("prim", k)
        # None keys cannot be written as a primitive part
        return ("map", (("key", ("leaf", "Key", "equal_to", (("v", k),), ())),))

    def path_for_node(self, ctx, doc, node_path, p_gen=None):
        r = self.r
        p_gen = self.k["p_generalise"] if p_gen is None else p_gen
        parts = []
        cur = doc
        for k in node_path:
            if r.random() < p_gen:
                parts.append(self.general_part(ctx, cur, k))
            else:
                parts.append(self.concrete_part(k))
            cur = cur[k]
        return tuple(parts)

    def blind_parts(self, ctx):
        r = self.r
        parts = []
        for _ in range(r.randint(0, 3)):
            c = r.random()
            if c < 0.6:
                parts.append(self.concrete_part(r.choice(ctx["keys"] + [0, 1, 5])))
            elif c < 0.8:
                parts.append(self.general_part(ctx, {"a": 1}, "a"))
            else:
                parts.append(self.general_part(ctx, [1, 2], 0))
        return tuple(parts)

    def path_from_docs(self, ctx, allow_mods=None, for_arg=False, max_len=None, doc=None, want_container=False):
        r = self.r
        doc = doc if doc is not None else r.choice(ctx["docs"])
        node_val = _NOVAL
        if r.random() < self.k["p_blind_path"]:
            parts = self.blind_parts(ctx)
        else:
            nodes = list(iter_nodes(doc))
            if want_container:
                cn = [n for n in nodes if isinstance(n[1], (dict, list)) and n[1]]
                nodes = cn or nodes
            if max_len is not None:
                nodes = [n for n in nodes if len(n[0]) <= max_len] or nodes
            node_path, node_val = r.choice(nodes)
            if (
                self.k["from_str"]
                and node_path
                and r.random() < 0.3
                and all(isinstance(k, (str, int)) and not isinstance(k, bool) and "/" not in str(k) and str(k) != "" for k in node_path)
            ):
                return ("from_str", "/".join(str(k) for k in node_path), None, None, None)
            parts = self.path_for_node(ctx, doc, node_path)
        allow_mods = self.k["modifiers"] if allow_mods is None else (allow_mods and self.k["modifiers"])
        dmod = mmod = None
        if allow_mods:
            concrete = all(p[0] == "prim" for p in parts)
            if r.random() < 0.35:
                dmod = r.choice(["dtype", "length", "map_keys", "map_values"])
                if node_val is not _NOVAL and r.random() < 0.85:
                    # mostly pick a modifier that is defined for the node the path was derived from
                    ok = ["dtype"]
                    if isinstance(node_val, (str, list, dict)):
                        ok.append("length")
                    if isinstance(node_val, dict):
                        ok += ["map_keys", "map_values", "map_keys", "map_values"]
                    dmod = r.choice(ok)
            if not concrete and r.random() < 0.5:
                mmod = r.choice(["first", "last", "single", "all"])
        return ("path", parts, dmod, mmod)

    # ------------------------------------------------------------------
    # rules
    # ------------------------------------------------------------------
    def rule(self, ctx, cast_ok=None, cond=None, path=None, mods=False):
        r = self.r
        cast_ok = self.k["casts"] if cast_ok is None else cast_ok
        cast = None
        doc = r.choice(ctx["docs"])
        if cast_ok and r.random() < 0.5:
            # cast write-back only works below string/float keys
            nodes = [n for n in iter_nodes(doc) if n[0] and all(isinstance(k, str) for k in n[0])]
            # mostly aim at nodes a cast really applies to (strings), preferably nested
            strs = [n for n in nodes if isinstance(n[1], str)]
            deep = [n for n in strs if len(n[0]) >= 2]
            if deep and r.random() < 0.6:
                nodes = deep
            elif strs and r.random() < 0.7:
                nodes = strs
            if nodes:
                node_path, _ = r.choice(nodes)
                parts = []
                cur = doc
                for k in node_path:
                    if r.random() < self.k["p_generalise"] * 0.7:
                        parts.append(("map", ()))
                    else:
                        parts.append(("prim", k))
                    cur = cur[k]
                path = ("path", tuple(parts), None, None)
                cast = r.choice([(("str", "bool"),), (("str", "int"),), (("str", "bool"), ("str", "int")), (("str", "int"), ("str", "bool"))])
        if path is None:
            path = self.path_from_docs(ctx, allow_mods=mods, doc=doc)
        if cond is None:
            if self.k["key_kind_rules"] and r.random() < 0.2:
                cond = self.tree(lambda: self.key_leaf(ctx))
            else:
                cond = self.value_tree(ctx)
        rdoc = None
        if r.random() < 0.15:
            rdoc = {"description": ["some text"], "examples": []}
        return ("rule", path, cond, cast, rdoc)


# ----------------------------------------------------------------------
# helpers over native documents
# ----------------------------------------------------------------------


def iter_nodes(doc, path=()):
    """(concrete path, value) for the root and every descendant, depth first."""
    yield path, doc
    if isinstance(doc, dict):
        for k, v in doc.items():
            yield from iter_nodes(v, path + (k,))
    elif isinstance(doc, list):
        for i, v in enumerate(doc):
            yield from iter_nodes(v, path + (i,))


def get_at(doc, path):
    cur = doc
    for k in path:
        try:
            cur = cur[k]
        except (KeyError, IndexError, TypeError):
            return None
    return cur
