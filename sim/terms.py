"""Terms: replayable, shrinkable, JSON-serialisable descriptions of everything
that lives in a simulated world (DESIGN.md 4.1).

In memory a term is a plain Python structure:

* documents / raw values are native Python values (dict, list, int, float,
  bool, None, str) -- dict keys may be str/int/float/bool/None;
* structured terms are *tuples* whose first element is a tag string.

On disk (`to_json` / `from_json`) tuples become ``{"T": [...]}``, dicts become
``{"M": [[k, v], ...]}`` (so non-string keys and key order survive) and lists
stay JSON lists; JSON already distinguishes int / float / bool / null / str, so
the codec is type-exact.

`World(term)` builds valida objects *lazily and through the public API only*;
the same code builds the shared world that callers operate on and the private
fresh copies used by reference runs.
"""
import copy
import enum
import json
import pathlib
import types

from valida.conditions import (
    ConditionAnd,
    ConditionOr,
    ConditionXor,
    Index,
    Key,
    KeyDataType,
    KeyLength,
    NullCondition,
    Value,
    ValueDataType,
    ValueLength,
)
from valida.casting import CAST_LOOKUP
from valida.data import Data
from valida.datapath import DataPath, ListValue, MapOrListValue, MapValue
from valida.rules import Rule
from valida.schema import Schema

# --------------------------------------------------------------------------
# JSON codec (type exact)
# --------------------------------------------------------------------------


def enc(x):
    if isinstance(x, tuple):
        return {"T": [enc(i) for i in x]}
    if isinstance(x, list):
        return [enc(i) for i in x]
    if isinstance(x, dict):
        return {"M": [[enc(k), enc(v)] for k, v in x.items()]}
    if x is None or isinstance(x, (bool, int, float, str)):
        return x
    raise TypeError(f"cannot encode {type(x)!r}")


def dec(x):
    if isinstance(x, list):
        return [dec(i) for i in x]
    if isinstance(x, dict):
        if "T" in x:
            return tuple(dec(i) for i in x["T"])
        if "M" in x:
            return {dec(k): dec(v) for k, v in x["M"]}
        raise TypeError(f"bad coded object {x!r}")
    return x


def to_json(term, **kw):
    return json.dumps(enc(term), **kw)


def from_json(s):
    return dec(json.loads(s))


# --------------------------------------------------------------------------
# lookup tables
# --------------------------------------------------------------------------

COND_CLS = {
    "Value": Value,
    "Value.length": ValueLength,
    "Value.dtype": ValueDataType,
    "Key": Key,
    "Key.length": KeyLength,
    "Key.dtype": KeyDataType,
    "Index": Index,
}
COND_KIND = {
    "Value": "value",
    "Value.length": "value",
    "Value.dtype": "value",
    "Key": "key",
    "Key.length": "key",
    "Key.dtype": "key",
    "Index": "index",
}
OP_CLS = {"and": ConditionAnd, "or": ConditionOr, "xor": ConditionXor}
TYPES = {
    "int": int,
    "float": float,
    "str": str,
    "list": list,
    "dict": dict,
    "bool": bool,
    "NoneType": type(None),
    "path": pathlib.Path,
}
PART_CLS = {"map": MapValue, "list": ListValue, "mol": MapOrListValue}
DATUM_MODS = ("dtype", "length", "map_keys", "map_values")
MULTI_MODS = ("first", "last", "single", "all")


class BuildError(Exception):
    """A term could not be turned into valida objects (constructor raised)."""

    def __init__(self, where, exc):
        super().__init__(f"{where}: {type(exc).__name__}: {exc}")
        self.where = where
        self.exc = exc


# --------------------------------------------------------------------------
# World: lazily built object graph from a world term
# --------------------------------------------------------------------------

KINDS = ("docs", "datas", "conds", "parts", "paths", "rules", "rlists", "schemas", "specs")


class World:
    """Objects of a world term, built on demand and memoised (so that two
    references to ``("cref", 3)`` are the *same* Python object)."""

    def __init__(self, term, unshare_specs=False):
        self.term = term
        self.cache = {}
        self.order = []  # (kind, idx) in build order
        self.unshare_specs = unshare_specs  # expand ("sref", n) into separate copies

    def has(self, kind, idx):
        return (kind, idx) in self.cache

    def get(self, kind, idx):
        key = (kind, idx)
        if key in self.cache:
            return self.cache[key]
        t = self.term[kind][idx]
        try:
            obj = getattr(self, "_build_" + kind)(t)
        except BuildError:
            raise
        except RecursionError as e:
            raise BuildError(f"{kind}[{idx}]", e)
        except Exception as e:  # constructor raised: term is not buildable
            raise BuildError(f"{kind}[{idx}]", e)
        self.cache[key] = obj
        self.order.append(key)
        return obj

    def put(self, kind, idx, obj):
        self.cache[(kind, idx)] = obj
        self.order.append((kind, idx))

    def build_all(self, kinds=KINDS):
        for kind in kinds:
            for idx in range(len(self.term.get(kind, ()))):
                self.get(kind, idx)
        return self

    # -- documents --------------------------------------------------------
    def _build_docs(self, t):
        return copy.deepcopy(t)

    def _build_datas(self, t):
        return Data(self.get("docs", t))

    # -- specs (C16) -------------------------------------------------------
    def _build_specs(self, t):
        return self.spec(t)

    def spec(self, t):
        """Spec terms are raw structures in which ``("sref", n)`` nodes stand
        for *the same* Python object as ``specs[n]`` (YAML anchor / module
        constant situation) and ``("ty", name)`` for a Python type."""
        if isinstance(t, tuple):
            if t[0] == "sref":
                if self.unshare_specs:
                    return self.spec(self.term["specs"][t[1]])
                return self.get("specs", t[1])
            if t[0] == "yaml_of":
                # YAML text of {"rules": specs[n]}; shared sub-structures become
                # anchors / aliases, exactly what a hand-written schema file with
                # `&name` / `*name` gives back from ruamel's safe loader
                import io
                from ruamel.yaml import YAML

                buf = io.StringIO()
                YAML(typ="safe").dump({"rules": self.get("specs", t[1])}, buf)
                return buf.getvalue()
            if t[0] == "ty":
                return TYPES[t[1]]
            if t[0] == "tup":
                return tuple(self.spec(i) for i in t[1])
            raise TypeError(f"bad spec term {t!r}")
        if isinstance(t, list):
            return [self.spec(i) for i in t]
        if isinstance(t, dict):
            return {k: self.spec(v) for k, v in t.items()}
        return t

    # -- conditions ---------------------------------------------------------
    def arg(self, t):
        tag = t[0]
        if tag == "v":
            return copy.deepcopy(t[1])
        if tag == "ty":
            return TYPES[t[1]]
        if tag == "tyl":
            return [TYPES[n] for n in t[1]]
        if tag == "path":
            return self.path(t[1])
        if tag == "pref":
            return self.get("paths", t[1])
        if tag == "lv":
            return [self.arg(a) for a in t[1]]
        raise TypeError(f"bad arg term {t!r}")

    def _build_conds(self, t):
        return self.cond(t)

    def cond(self, t):
        tag = t[0]
        if tag == "null":
            return NullCondition()
        if tag == "leaf":
            _, cls, meth, args, kwargs = t
            return getattr(COND_CLS[cls], meth)(
                *[self.arg(a) for a in args], **{k: self.arg(a) for k, a in kwargs}
            )
        if tag in OP_CLS:
            return OP_CLS[tag](self.cond(t[1]), self.cond(t[2]))
        if tag == "cref":
            return self.get("conds", t[1])
        raise TypeError(f"bad condition term {t!r}")

    # -- parts / paths -------------------------------------------------------
    def _build_parts(self, t):
        return self.part(t)

    def part(self, t):
        tag = t[0]
        if tag == "prim":
            return t[1]
        if tag == "ptref":
            return self.get("parts", t[1])
        cls = PART_CLS[tag]
        kw = {}
        for k, v in t[1]:
            if k == "label":
                kw[k] = v
            elif v[0] == "v":
                kw[k] = copy.deepcopy(v[1])
            else:
                kw[k] = self.cond(v)
        return cls(**kw)

    def _build_paths(self, t):
        return self.path(t)

    def path(self, t):
        tag = t[0]
        if tag == "pref":
            return self.get("paths", t[1])
        if tag == "from_str":
            p = DataPath.from_str(t[1], t[2]) if t[2] is not None else DataPath.from_str(t[1])
            dmod, mmod = (t[3], t[4]) if len(t) > 3 else (None, None)
        elif tag == "path":
            _, parts, dmod, mmod = t[:4]
            kw = {}
            if len(t) > 4 and t[4] is not None:
                kw["source_data"] = self.get("docs", t[4])
            p = DataPath(*[self.part(i) for i in parts], **kw)
        else:
            raise TypeError(f"bad path term {t!r}")
        # modifiers in the order given: ("dm", ...) first unless mmod is ("first!", ..)
        if dmod is not None:
            p = getattr(p, dmod)()
        if mmod is not None:
            p = getattr(p, mmod)()
        return p

    # -- rules / schemas ------------------------------------------------------
    def _build_rules(self, t):
        _, path, cond, cast, doc = t
        kw = {}
        if cast is not None:
            kw["cast"] = {TYPES[a]: CAST_LOOKUP[(TYPES[a], TYPES[b])] for a, b in cast}
        if doc is not None:
            kw["doc"] = copy.deepcopy(doc)
        return Rule(path=self.path(path), condition=self.cond(cond), **kw)

    def _build_rlists(self, t):
        """A caller-owned Python list of Rule objects (may be handed to several
        Schema constructors)."""
        return [self.get("rules", i) for i in t]

    def _build_schemas(self, t):
        if t[0] == "schema_l":  # Schema(<the caller's list object rlists[k]>)
            return Schema(rules=self.get("rlists", t[1]))
        if t[0] == "schema_of":  # Schema(other_schema.rules)
            return Schema(rules=self.get("schemas", t[1]).rules)
        _, rule_refs = t
        return Schema(rules=[self.get("rules", i) for i in rule_refs])


# --------------------------------------------------------------------------
# Structural snapshots (type exact, cycle safe, address free)
# --------------------------------------------------------------------------

_SCALARS = (int, str, bool, type(None))


def snap(x, _stack=None):
    """Canonical structural snapshot of an arbitrary object graph.

    * type exact (True != 1 != 1.0; tuple != list; key order kept);
    * walks ``__dict__`` of instances;
    * functions / types / enum members by qualified name, never by address;
    * cycles (an object that contains itself) become ``("cycle", depth)``;
      plain DAG sharing is *not* encoded, so that replacing a sub-object by an
      equal copy -- unobservable to a caller -- is not reported.
    """
    t = type(x)
    if t in _SCALARS:
        return (t.__name__, x)
    if t is float:
        return ("float", x.hex())
    if _stack is None:
        _stack = []
    xid = id(x)
    slots = None
    if not hasattr(x, "__dict__") and not isinstance(x, (dict, list, tuple, type, range, set, frozenset, bytes, enum.Enum)):
        slots = _slot_names(t)
    if isinstance(x, (dict, list, tuple)) or slots or hasattr(x, "__dict__") and not isinstance(
        x, (type, types.FunctionType, types.BuiltinFunctionType, types.ModuleType)
    ):
        if xid in _stack:
            return ("cycle", len(_stack) - _stack.index(xid))
        if len(_stack) > 200:
            return ("too-deep",)
        _stack.append(xid)
        try:
            if t is dict:
                return ("dict", tuple((snap(k, _stack), snap(v, _stack)) for k, v in x.items()))
            if t is list:
                return ("list", tuple(snap(i, _stack) for i in x))
            if t is tuple:
                return ("tuple", tuple(snap(i, _stack) for i in x))
            if isinstance(x, dict):  # a subclass (OrderedDict, ruamel's maps ...): class name + contents (+ attributes)
                return ("dict:" + t.__qualname__, tuple((snap(k, _stack), snap(v, _stack)) for k, v in x.items()), snap(getattr(x, "__dict__", None), _stack))
            if isinstance(x, (list, tuple)):
                return (("list:" if isinstance(x, list) else "tuple:") + t.__qualname__, tuple(snap(i, _stack) for i in x), snap(getattr(x, "__dict__", None), _stack))
            if isinstance(x, enum.Enum):
                return ("enum", type(x).__qualname__, x.name)
            if isinstance(x, BaseException):
                return ("exc", type(x).__qualname__)
            attrs = dict(vars(x)) if hasattr(x, "__dict__") else {}
            for name in slots or _slot_names(t):
                if name not in attrs and hasattr(x, name):
                    attrs[name] = getattr(x, name)
            return (
                "obj",
                f"{t.__module__}.{t.__qualname__}",
                tuple(sorted((k, snap(v, _stack)) for k, v in attrs.items())),
            )
        finally:
            _stack.pop()
    if isinstance(x, type):
        return ("type", f"{x.__module__}.{x.__qualname__}")
    if isinstance(x, (types.FunctionType, types.BuiltinFunctionType, types.MethodType)):
        return ("fn", getattr(x, "__module__", None), getattr(x, "__qualname__", repr(type(x))))
    if t is range:
        return ("range", x.start, x.stop, x.step)
    if t in (set, frozenset):
        return (t.__name__, tuple(sorted((snap(i, _stack) for i in x), key=repr)))
    if isinstance(x, enum.Enum):
        return ("enum", type(x).__qualname__, x.name)
    if t is bytes:
        return ("bytes", x.hex())
    return ("opaque", f"{t.__module__}.{t.__qualname__}")


def _slot_names(t):
    names = []
    for c in getattr(t, "__mro__", ()):
        s = c.__dict__.get("__slots__", ())
        if isinstance(s, str):
            s = (s,)
        for n in s:
            if n not in ("__dict__", "__weakref__") and n not in names:
                names.append(n)
    return names


def rule_projection(r):
    """What a rule 'is', as far as a caller can tell (path parts, path
    modifiers, condition, cast, doc) - no object identity, no internal flags,
    no private bookkeeping attributes."""
    p = getattr(r, "path", None)
    g = lambda name: snap(getattr(p, name, "<missing>"))
    return (
        "obj",
        "valida.rules.Rule",
        (
            ("cast", snap(getattr(r, "cast", "<missing>"))),
            ("condition", snap(getattr(r, "condition", "<missing>"))),
            ("doc", snap(getattr(r, "doc", "<missing>"))),
            ("path.DATUM_TYPE", g("DATUM_TYPE")),
            ("path.MULTI_TYPE", g("MULTI_TYPE")),
            ("path.parts", g("parts")),
            ("path.source_data", g("source_data")),
        ),
    )


def diff_path(a, b, path=()):
    """First position at which two snapshots differ, as a readable path."""
    if a == b:
        return None
    if (
        isinstance(a, tuple)
        and isinstance(b, tuple)
        and a
        and b
        and a[0] == b[0]
        and isinstance(a[0], str)
    ):
        tag = a[0]
        if tag == "obj":
            if a[1] != b[1]:
                return path + (f"<class {a[1]} -> {b[1]}>",)
            da, db = dict(a[2]), dict(b[2])
            for k in sorted(set(da) | set(db)):
                if k not in da:
                    return path + (f".{k}<added>",)
                if k not in db:
                    return path + (f".{k}<removed>",)
                if da[k] != db[k]:
                    return diff_path(da[k], db[k], path + (f"{a[1].rsplit('.', 1)[-1]}.{k}",))
        elif tag in ("list", "tuple"):
            if len(a[1]) != len(b[1]):
                return path + (f"<{tag} len {len(a[1])} -> {len(b[1])}>",)
            for i, (x, y) in enumerate(zip(a[1], b[1])):
                if x != y:
                    return diff_path(x, y, path + (f"[{i}]",))
        elif tag == "dict":
            ka = [k for k, _ in a[1]]
            kb = [k for k, _ in b[1]]
            if ka != kb:
                return path + (f"<dict keys {ka!r} -> {kb!r}>",)
            for (k, x), (_, y) in zip(a[1], b[1]):
                if x != y:
                    return diff_path(x, y, path + (f"[{k[1]!r}]",))
    return path + (f"<{_short(a)} -> {_short(b)}>",)


def _short(s, n=60):
    r = repr(s)
    return r if len(r) <= n else r[: n - 3] + "..."


def attr_locus(path):
    """Reduce a diff path to the class.attribute names on it (no indices, no
    values): stable across seeds, specific to the site that was written."""
    if not path:
        return "?"
    names = [p for p in path if not p.startswith("[") and not p.startswith("<")]
    if names:
        return "/".join(names[-2:])
    tail = path[-1]
    if "len" in tail:
        return "container#len"
    if "keys" in tail:
        return "container#keys"
    return "container#value"
